/-
Theorems about the PyPI native range converter (`Univers/Text/PypiNative.lean`).

The declarative reading of the notation (PEP 440 version specifiers restricted to what the
converter supports): a comma-separated list of clauses `<op><version>` with
`op ∈ {==, !=, <=, >=, <, >}`; SPACE characters are insignificant anywhere (the converter deletes
them all before parsing); every clause states one vers constraint, `==` ↦ `=`.
-/
import Univers.Text.PypiNative
import Univers.Scheme.GemThm

namespace Univers.Text.PypiNative

open Univers Univers.Text Univers.Text.GP

/-! ### declared errors (C16) -/

/-- **`pypi_native_declared`**: whatever the text and whatever the version constructor does,
`PypiVersionRange.from_native` returns or raises `InvalidVersionRange` — nothing else
(the `try … except:` around the version constructor is bare) -/
theorem pypi_native_declared (mkVer : List Char → Except TErr (List Char)) (s : List Char) :
    (∃ cs, fromNative mkVer s = .ok cs) ∨ fromNative mkVer s = .error .InvalidVersionRange := by
  unfold fromNative
  split
  · right; rfl
  · dsimp only
    split
    · right; rfl
    · split
      · right; rfl
      · split
        · right; rfl
        · left; exact ⟨_, rfl⟩

/-- the unsupported forms are rejected with the declared error, even when well-formed PEP 440 -/
theorem pypi_native_unsupported (mkVer : List Char → Except TErr (List Char)) :
    fromNative mkVer "~=1.0".toList = .error .InvalidVersionRange
    ∧ fromNative mkVer "===1.0".toList = .error .InvalidVersionRange
    ∧ fromNative mkVer "==1.0.*".toList = .error .InvalidVersionRange
    ∧ fromNative mkVer ">=1.0;python_version<'3'".toList = .error .InvalidVersionRange
    ∧ fromNative mkVer "1.0".toList = .error .InvalidVersionRange := by
  refine ⟨by rfl, by rfl, by rfl, by rfl, by rfl⟩

/-! ### the notation -/

/-- a clause: one of the six plain operators (as the vers comparator it becomes) and a
version text -/
structure PClause where
  op : Cmpr
  ver : List Char

/-- the native operator: `=` is spelled `==` -/
def sopOf : Cmpr → SOp
  | .eq => .eq | .ne => .ne | .le => .le | .ge => .ge | .lt => .lt | .gt => .gt

/-- the clause without any space -/
def PClause.core (c : PClause) : List Char := (sopOf c.op).text ++ c.ver

/-- safe version text: non-empty, no white space, no comma, none of the characters the converter
rejects, does not start with `=`, does not end with `.*` -/
def safeVer (ver : List Char) : Bool :=
  !ver.isEmpty
  && ver.all (fun c => !isSp c && c != ',' && c != ';' && !unsupportedChars.contains c)
  && ver.head? != some '='
  && !endsWith ".*".toList ver

/-- the clause is admissible: safe text, and `Specifier._regex` accepts it (PEP 440 grammar of
the version for this operator: no local version after an ordered comparison, …) -/
def PClause.ok (c : PClause) : Bool := safeVer c.ver && specifierRegex.fullmatch c.core

/-- `",".join(parts)` -/
def joinComma : List (List Char) → List Char
  | [] => []
  | [p] => p
  | p :: q :: rest => p ++ ',' :: joinComma (q :: rest)

/-- `str(PypiVersion(text))` when the constructor accepts the text -/
def verOf (mkVer : List Char → Except TErr (List Char)) (ver : List Char) : List Char :=
  match mkVer ver with | .ok v => v | .error _ => ver

example : (PClause.mk .ge "1.0rc1".toList).ok = true := by decide
example : (PClause.mk .eq "1.0+local".toList).ok = true := by decide
example : (PClause.mk .ge "1.0+local".toList).ok = false := by decide

/-! ### lemmas on the string helpers -/

theorem mem_joinComma (ps : List (List Char)) (c : Char) (h : c ∈ joinComma ps) :
    c = ',' ∨ ∃ p ∈ ps, c ∈ p := by
  match ps with
  | [] => simp [joinComma] at h
  | [p] => right; exact ⟨p, by simp, by simpa [joinComma] using h⟩
  | p :: q :: rest =>
    simp only [joinComma, List.mem_append, List.mem_cons] at h
    rcases h with h | h | h
    · right; exact ⟨p, by simp, h⟩
    · left; exact h
    · rcases mem_joinComma (q :: rest) c h with h' | ⟨p', hp', hc⟩
      · left; exact h'
      · right; exact ⟨p', List.mem_cons_of_mem _ hp', hc⟩

theorem splitOn_noSep (p : List Char) (h : ∀ c ∈ p, c ≠ ',') : splitOn ',' p = [p] := by
  induction p with
  | nil => rfl
  | cons c r ih =>
    have hc : (c == ',') = false := by simpa using h c (by simp)
    simp [splitOn, hc, ih (fun d hd => h d (List.mem_cons_of_mem _ hd))]

theorem splitOn_append (p t : List Char) (h : ∀ c ∈ p, c ≠ ',') :
    splitOn ',' (p ++ ',' :: t) = p :: splitOn ',' t := by
  induction p with
  | nil => simp [splitOn]
  | cons c r ih =>
    have hc : (c == ',') = false := by simpa using h c (by simp)
    simp [splitOn, hc, ih (fun d hd => h d (List.mem_cons_of_mem _ hd))]

theorem splitOn_joinComma (ps : List (List Char)) (hne : ps ≠ [])
    (h : ∀ p ∈ ps, ∀ c ∈ p, c ≠ ',') : splitOn ',' (joinComma ps) = ps := by
  match ps with
  | [] => exact absurd rfl hne
  | [p] => simpa [joinComma] using splitOn_noSep p (h p (by simp))
  | p :: q :: rest =>
    simp only [joinComma]
    rw [splitOn_append p _ (h p (by simp)),
      splitOn_joinComma (q :: rest) (by simp) (fun p' hp' => h p' (List.mem_cons_of_mem _ hp'))]

theorem contains_filter_ne (t : List Char) (c : Char) (hc : c ≠ ' ') :
    (t.filter (fun x => x != ' ')).contains c = t.contains c := by
  rw [Bool.eq_iff_iff]
  simp only [List.contains_iff_mem, List.mem_filter, bne_iff_ne, ne_eq]
  constructor
  · exact fun h => h.1
  · intro h; exact ⟨h, fun h' => hc (by simpa using h')⟩

/-! ### exactness (C06 pypi part) -/

theorem sop_text_chars (o : Cmpr) : ∀ c ∈ (sopOf o).text,
    isSp c = false ∧ c ≠ ',' ∧ c ≠ ';' ∧ unsupportedChars.contains c = false := by
  cases o <;> decide

theorem core_chars (c : PClause) (h : c.ok = true) : ∀ x ∈ c.core,
    isSp x = false ∧ x ≠ ',' ∧ x ≠ ';' ∧ unsupportedChars.contains x = false := by
  intro x hx
  simp only [PClause.core, List.mem_append] at hx
  rcases hx with hx | hx
  · exact sop_text_chars c.op x hx
  · simp only [PClause.ok, safeVer, Bool.and_eq_true, List.all_eq_true, Bool.not_eq_true',
      bne_iff_ne, ne_eq] at h
    have := h.1.1.1.2 x hx
    exact ⟨this.1.1.1, this.1.1.2, this.1.2, this.2⟩

theorem core_ne_nil (c : PClause) : c.core ≠ [] := by
  cases c with | mk o v => cases o <;> simp [PClause.core, sopOf, SOp.text]

theorem strip_core (c : PClause) (h : c.ok = true) : strip c.core = c.core := by
  apply Gem.strip_of_noSpace
  simp only [Gem.noSpace, List.all_eq_true, Bool.not_eq_true']
  exact fun x hx => (core_chars c h x hx).1

theorem specifier_core (c : PClause) (h : c.ok = true) :
    specifier c.core = some (sopOf c.op, c.ver) := by
  have hs := strip_core c h
  have hre : specifierRegex.fullmatch c.core = true := by
    simp only [PClause.ok, Bool.and_eq_true] at h; exact h.2
  have hv : strip c.ver = c.ver := by
    apply Gem.strip_of_noSpace
    simp only [Gem.noSpace, List.all_eq_true, Bool.not_eq_true']
    intro x hx
    exact (core_chars c h x (by simp [PClause.core, hx])).1
  have hhead : c.ver.head? ≠ some '=' := by
    simp only [PClause.ok, safeVer, Bool.and_eq_true, bne_iff_ne, ne_eq] at h
    exact h.1.1.2
  simp only [specifier, hre, Bool.not_true, Bool.false_eq_true, ↓reduceIte, hs]
  obtain ⟨o, v⟩ := c
  cases v with
  | nil => simp [PClause.ok, safeVer] at h
  | cons a r =>
    have ha : a ≠ '=' := by simpa using hhead
    have ha' : ¬ '=' = a := fun h => ha h.symm
    simp only at hv
    cases o <;>
      simp [PClause.core, sopOf, SOp.text, splitSpec, startsWith, List.isPrefixOf, hv, ha']

theorem loopBody_core (mkVer : List Char → Except TErr (List Char)) (c : PClause) (h : c.ok = true)
    (v : List Char) (hv : mkVer c.ver = .ok v) :
    loopBody mkVer (sopOf c.op, c.ver) = some (.mk c.op v) := by
  have hw : endsWith ".*".toList c.ver = false := by
    simp only [PClause.ok, safeVer, Bool.and_eq_true, Bool.not_eq_true'] at h
    exact h.1.2
  have hw' : endsWith ['.', '*'] c.ver = false := hw
  cases ho : c.op <;> simp [loopBody, sopOf, hw', hv, SOp.cmpr?]

theorem specifiers_cores (cs : List PClause) (hok : ∀ c ∈ cs, c.ok = true) :
    specifiers (cs.map PClause.core) = some (cs.map (fun c => (sopOf c.op, c.ver))) := by
  induction cs with
  | nil => rfl
  | cons c r ih =>
    simp only [List.map_cons, specifiers, specifier_core c (hok c (by simp)),
      ih (fun d hd => hok d (List.mem_cons_of_mem _ hd))]

/-- **`pypi_native_exact`**: for every list of admissible clauses whose version texts the
version constructor accepts, and EVERY text that is the comma-joined clauses with SPACE
characters inserted anywhere, `from_native` returns exactly the stated constraints, in order
(duplicates included) -/
theorem pypi_native_exact (mkVer : List Char → Except TErr (List Char)) (cs : List PClause)
    (t : List Char) (ht : t.filter (fun x => x != ' ') = joinComma (cs.map PClause.core))
    (hok : ∀ c ∈ cs, c.ok = true) (hv : ∀ c ∈ cs, ∃ v, mkVer c.ver = .ok v) :
    fromNative mkVer t = .ok (cs.map (fun c => Con.mk c.op (verOf mkVer c.ver))) := by
  have hchars : ∀ x ∈ joinComma (cs.map PClause.core),
      x ≠ ';' ∧ unsupportedChars.contains x = false := by
    intro x hx
    rcases mem_joinComma _ x hx with h | ⟨p, hp, hxp⟩
    · subst h; decide
    · obtain ⟨c, hc, hpc⟩ := List.mem_map.mp hp
      subst hpc
      have := core_chars c (hok c hc) x hxp
      exact ⟨this.2.2.1, this.2.2.2⟩
  have h1 : t.contains ';' = false := by
    rw [← contains_filter_ne t ';' (by decide), ht]
    cases hcon : (joinComma (cs.map PClause.core)).contains ';' with
    | false => rfl
    | true => exact absurd rfl (hchars ';' (List.contains_iff_mem.mp hcon)).1
  have h2 : unsupportedChars.any (fun c => (joinComma (cs.map PClause.core)).contains c) = false := by
    cases hany : unsupportedChars.any (fun c => (joinComma (cs.map PClause.core)).contains c) with
    | false => rfl
    | true =>
      obtain ⟨u, hu, hcon⟩ := List.any_eq_true.mp hany
      have := (hchars u (List.contains_iff_mem.mp hcon)).2
      rw [List.contains_iff_mem.mpr hu] at this
      cases this
  have h3 : specifierSet (joinComma (cs.map PClause.core))
      = some (cs.map (fun c => (sopOf c.op, c.ver))) := by
    unfold specifierSet splitSpecifiers
    cases hcs : cs with
    | nil => rfl
    | cons c0 r0 =>
      rw [← hcs]
      rw [splitOn_joinComma (cs.map PClause.core) (by simp [hcs])
        (by
          intro p hp x hx
          obtain ⟨c, hc, hpc⟩ := List.mem_map.mp hp
          subst hpc
          exact (core_chars c (hok c hc) x hx).2.1)]
      have hmap : (cs.map PClause.core).map strip = cs.map PClause.core := by
        rw [List.map_map]
        apply List.map_congr_left
        intro c hc
        exact strip_core c (hok c hc)
      have hfil : (cs.map PClause.core).filter (fun x => !x.isEmpty) = cs.map PClause.core := by
        apply List.filter_eq_self.mpr
        intro p hp
        obtain ⟨c, _, hpc⟩ := List.mem_map.mp hp
        subst hpc
        cases hcore : c.core with
        | nil => exact absurd hcore (core_ne_nil c)
        | cons _ _ => rfl
      rw [hmap, hfil]
      exact specifiers_cores cs hok
  have h4 : (cs.map (fun c => (sopOf c.op, c.ver))).map (loopBody mkVer)
      = cs.map (fun c => some (Con.mk c.op (verOf mkVer c.ver))) := by
    rw [List.map_map]
    apply List.map_congr_left
    intro c hc
    obtain ⟨v, hvc⟩ := hv c hc
    simp only [Function.comp, loopBody_core mkVer c (hok c hc) v hvc, verOf, hvc]
  unfold fromNative
  simp only [h1, Bool.false_eq_true, ↓reduceIte, ht, h2, h3, h4]
  have h5 : (cs.map (fun c => some (Con.mk c.op (verOf mkVer c.ver)))).any Option.isNone = false := by
    simp [List.any_map]
  have h6 : (cs.map (fun c => some (Con.mk c.op (verOf mkVer c.ver)))).filterMap id
      = cs.map (fun c => Con.mk c.op (verOf mkVer c.ver)) := by
    simp [List.filterMap_map]
  simp only [h5, Bool.false_eq_true, ↓reduceIte, h6]

/-! ### what the flat vers model cannot express (note)

PEP 440 matching is not the conjunction of plain order comparisons: `<2.0` EXCLUDES the
pre-releases `2.0rc1`, `2.0.dev1` of the bound although they sort below it; `>1.0` excludes
`1.0.post1` and `1.0+local`; `==1.0` ignores a local version label of the candidate; `!=`
likewise; and pre-releases are excluded from every specifier unless requested.  The vers range
produced by the converter uses the plain order of `PypiVersion`.  The C06 membership property
for pypi therefore restricts its probes to final RELEASE versions (no pre/post/dev/local part),
on which the six operators of PEP 440 and the vers comparators agree. -/

end Univers.Text.PypiNative
