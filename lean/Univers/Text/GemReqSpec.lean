/-
Layer C — SPEC of the RubyGems requirement notation (Gem::Requirement), independent of how
`univers.gem` computes it.

* the published table of the pessimistic operator `~>` on release versions;
* the matcher of RubyGems (`Gem::Requirement::OPS`) over the three-way comparison of versions;
* the abstract syntax of a requirement string and all its accepted spellings.
-/
import Univers.Text.GemReq
import Univers.Vers.Spec

namespace Univers.Text.GemReq

open Univers Univers.Text Univers.Text.GP

/-! ### `~>` on release versions

RubyGems documentation: `~> 3.0.0` is `>= 3.0.0, < 3.1`; `~> 3.5` is `>= 3.5, < 4.0`;
`~> 3` is `>= 3, < 4`: drop the last segment (if there are at least two) and add one to the new
last segment. -/

def tildeUpper : List Nat → List Nat
  | [] => []
  | [a] => [a + 1]
  | [a, _] => [a + 1]
  | a :: b :: c :: rest => a :: tildeUpper (b :: c :: rest)

/-- the text of a release version `n₁.n₂.….nₖ` -/
def relText (ns : List Nat) : List Char := Gem.joinDots (ns.map Gem.natStr)

/-- the version object of a release version -/
def relVer (ns : List Nat) : Gem.Raw := ⟨relText ns⟩

/-! ### the matcher of RubyGems (`Gem::Requirement::OPS`), over `Gem.vercmp`

`"~>" => lambda {|v, r| v >= r && v.release < r.bump }` -/

def releaseD (v : Gem.Raw) : Gem.Raw :=
  match Gem.release v with | .ok r => r | .error _ => v

def bumpD (v : Gem.Raw) : Gem.Raw :=
  match Gem.bump v with | .ok r => r | .error _ => v

def opHolds : Op → Gem.Raw → Gem.Raw → Bool
  | .eq, x, v => Gem.vercmp x v == .eq
  | .ne, x, v => Gem.vercmp x v != .eq
  | .gt, x, v => Gem.vercmp x v == .gt
  | .lt, x, v => Gem.vercmp x v == .lt
  | .ge, x, v => Gem.vercmp x v != .lt
  | .le, x, v => Gem.vercmp x v != .gt
  | .tilde, x, v => Gem.vercmp x v != .lt && Gem.vercmp (releaseD x) (bumpD v) == .lt

/-- a version satisfies a requirement iff it satisfies every clause -/
def satSpec (cs : List GC) (x : Gem.Raw) : Bool := cs.all (fun gc => opHolds gc.op x gc.version)

/-- the vers constraint a non-`~>` clause becomes -/
def GC.con? (gc : GC) : Option (Con Gem.Raw) := gc.op.cmpr?.map (fun c => Con.mk c gc.version)

/-! ### abstract syntax and spellings -/

/-- a clause: optional operator (default `=`) and a version text, with the white space of one
spelling: before the operator, between operator and version, after the version -/
structure Clause where
  op : Option Op
  ver : List Char
  w1 : List Char
  w2 : List Char
  w3 : List Char

def allSp (w : List Char) : Bool := w.all isSp

/-- the spelling is admissible: the three gaps are white space, the version text matches
`VERSION_PATTERN` (hence is non-empty, starts with a digit, has no white space, comma or
parenthesis) -/
def Clause.ok (c : Clause) : Bool :=
  allSp c.w1 && allSp c.w2 && allSp c.w3 && Gem.run .d0 c.ver

def opText : Option Op → List Char
  | some o => o.text
  | none => []

def Clause.text (c : Clause) : List Char := c.w1 ++ opText c.op ++ c.w2 ++ c.ver ++ c.w3

/-- what the clause states -/
def Clause.gc (c : Clause) : GC := ⟨c.op.getD .eq, ⟨c.ver⟩⟩

/-- `",".join(parts)` -/
def joinComma : List (List Char) → List Char
  | [] => []
  | [p] => p
  | p :: q :: rest => p ++ ',' :: joinComma (q :: rest)

def isParen (c : Char) : Bool := c == '(' || c == ')'

/-- a requirement string: clauses joined by commas, optionally wrapped in parentheses
(`lp`, `rp`: any run of `(`/`)`), optionally surrounded by white space (`pre`, `post`) -/
def render (pre lp : List Char) (cs : List Clause) (rp post : List Char) : List Char :=
  pre ++ lp ++ joinComma (cs.map Clause.text) ++ rp ++ post

end Univers.Text.GemReq
