/-
Agreement theorems for the relation converters of `DebianVersionRange` and `RpmVersionRange` as translated from
`univers/version_range.py` on every run (`Univers/Gen/PyTextDeb*.lean`, `PyTextRpm*.lean`): `split`,
`build_constraint_from_string`, `from_native` and `from_natives` are the model's `splitReq` on the class's regenerated
comparator dict, `relConstraint`, and `debNatives` / `rpmNatives` of `Univers/Text/Advisory.lean`, which the deb / rpm
part of the theorems of C06 is about.  The advisory model reads ASCII text (`GenSplitReqThm.lean`).
-/
import Univers.Gen.PyTextDebFromNatives
import Univers.Gen.PyTextRpmFromNatives
import Univers.Text.GenAdvisoryThm

namespace Univers.Gen.Text
open Univers Univers.PyRt Univers.Text Univers.Text.Vers Univers.Text.PyText

variable (mk : List Char → Except TErr (List Char))

/-- the body shared by the two classes: split on the class's dict, build the version, build the constraint -/
theorem rel_build_eq (cls : String) (strip : List Char) (string : List Char) (hs : Ascii string) :
    ((nativeDictE cls >>= fun d => py_split_req mk string d none strip) >>= fun (x : Option (List Char) × List Char) =>
      match x with
      | (comparator, version) => mk version >>= fun version => mkTConOpt comparator version)
      = (match Advisory.nativeDict cls with
         | none => .error .AttributeError
         | some d => Advisory.relConstraint mk d strip string) := by
  unfold nativeDictE Advisory.relConstraint
  cases Advisory.nativeDict cls with
  | none => rfl
  | some d =>
    simp only [bind, Except.bind, py_split_req_eq mk string hs]
    cases Advisory.splitReq string d none strip with
    | error e => rfl
    | ok cv =>
      obtain ⟨c, v⟩ := cv
      simp only [Advisory.buildCon]
      cases mk v with
      | error e => rfl
      | ok w => exact mkTConOpt_eq c w

/-- **`DebianVersionRange.split` as translated is the model's `splitReq`** on the class's dict, with `strip=")("`. -/
theorem deb_split_eq (string : List Char) (hs : Ascii string) :
    deb_split mk string
      = (match Advisory.nativeDict "DebianVersionRange" with
         | none => .error .AttributeError
         | some d => Advisory.splitReq string d none [')', '(']) := by
  unfold deb_split nativeDictE
  cases Advisory.nativeDict "DebianVersionRange" with
  | none => rfl
  | some d => simp only [bind, Except.bind, py_split_req_eq mk string hs]

/-- **`DebianVersionRange.build_constraint_from_string` as translated is the model's `relConstraint`.** -/
theorem deb_build_constraint_eq (string : List Char) (hs : Ascii string) :
    deb_build_constraint mk string
      = (match Advisory.nativeDict "DebianVersionRange" with
         | none => .error .AttributeError
         | some d => Advisory.relConstraint mk d [')', '('] string) := by
  unfold deb_build_constraint deb_split
  exact rel_build_eq mk "DebianVersionRange" [')', '('] string hs

/-- **`RpmVersionRange.build_constraint_from_string` as translated is the model's `relConstraint`.** -/
theorem rpm_build_constraint_eq (string : List Char) (hs : Ascii string) :
    rpm_build_constraint mk string
      = (match Advisory.nativeDict "RpmVersionRange" with
         | none => .error .AttributeError
         | some d => Advisory.relConstraint mk d [','] string) := by
  unfold rpm_build_constraint
  exact rel_build_eq mk "RpmVersionRange" [','] string hs

/-- a comprehension over an effectful call is the model's `collect` of one-element lists -/
theorem mapM_collect {α β : Type} (f g : α → Except TErr β) (l : List α) (h : ∀ a ∈ l, f a = g a) :
    l.mapM f = Advisory.collect (fun a => match g a with | .error e => .error e | .ok k => .ok [k]) l := by
  induction l with
  | nil => rfl
  | cons a as ih =>
    have ha := h a (List.mem_cons_self ..)
    have hrest : ∀ b ∈ as, f b = g b := fun b hb => h b (List.mem_cons_of_mem _ hb)
    simp only [List.mapM_cons, Advisory.collect, ha, ih hrest, bind, Except.bind, pure, Except.pure]
    cases g a with
    | error e => rfl
    | ok k =>
      simp only []
      cases Advisory.collect (fun a => match g a with | .error e => .error e | .ok k => .ok [k]) as with
      | error e => rfl
      | ok ks => rfl

theorem collect_congr {α β : Type} (f g : α → Except TErr (List β)) (l : List α) (h : ∀ a, f a = g a) :
    Advisory.collect f l = Advisory.collect g l := by
  have : f = g := funext h
  rw [this]

/-- **`DebianVersionRange.from_natives` as translated is the model's `debNatives`.** -/
theorem deb_from_natives_eq (strings : List (List Char)) (hs : ∀ s ∈ strings, Ascii s) :
    deb_from_natives mk strings = Advisory.debNatives mk strings := by
  unfold deb_from_natives Advisory.debNatives Advisory.relNatives
  rw [mapM_collect (fun rel => deb_build_constraint mk rel)
    (fun s => match Advisory.nativeDict "DebianVersionRange" with
              | none => .error .AttributeError
              | some d => Advisory.relConstraint mk d [')', '('] s) strings
    (fun s h => deb_build_constraint_eq mk s (hs s h))]
  simp only [bind, Except.bind]
  rw [collect_congr _ (fun s => match Advisory.nativeDict "DebianVersionRange" with
            | none => .error .AttributeError
            | some dict => match Advisory.relConstraint mk dict [')', '('] s with
              | .error e => .error e | .ok k => .ok [k]) strings
      (fun s => by
        cases Advisory.nativeDict "DebianVersionRange" with
        | none => rfl
        | some d => simp only []; cases Advisory.relConstraint mk d [')', '('] s <;> rfl)]
  cases Advisory.collect _ strings <;> rfl

/-- **`RpmVersionRange.from_natives` as translated is the model's `rpmNatives`.** -/
theorem rpm_from_natives_eq (strings : List (List Char)) (hs : ∀ s ∈ strings, Ascii s) :
    rpm_from_natives mk strings = Advisory.rpmNatives mk strings := by
  unfold rpm_from_natives Advisory.rpmNatives Advisory.relNatives
  rw [mapM_collect (fun rel => rpm_build_constraint mk rel)
    (fun s => match Advisory.nativeDict "RpmVersionRange" with
              | none => .error .AttributeError
              | some d => Advisory.relConstraint mk d [','] s) strings
    (fun s h => rpm_build_constraint_eq mk s (hs s h))]
  simp only [bind, Except.bind]
  rw [collect_congr _ (fun s => match Advisory.nativeDict "RpmVersionRange" with
            | none => .error .AttributeError
            | some dict => match Advisory.relConstraint mk dict [','] s with
              | .error e => .error e | .ok k => .ok [k]) strings
      (fun s => by
        cases Advisory.nativeDict "RpmVersionRange" with
        | none => rfl
        | some d => simp only []; cases Advisory.relConstraint mk d [','] s <;> rfl)]
  cases Advisory.collect _ strings <;> rfl

/-- **`from_native(string)` is `from_natives([string])`** for both classes. -/
theorem deb_from_native_eq (string : List Char) (hs : Ascii string) :
    deb_from_native mk string = Advisory.debNatives mk [string] := by
  rw [← deb_from_natives_eq mk [string] (by intro s h; simp at h; subst h; exact hs)]
  unfold deb_from_native deb_from_natives
  simp only [List.mapM_cons, List.mapM_nil, bind, Except.bind, pure, Except.pure]
  cases deb_build_constraint mk string <;> rfl

theorem rpm_from_native_eq (string : List Char) (hs : Ascii string) :
    rpm_from_native mk string = Advisory.rpmNatives mk [string] := by
  rw [← rpm_from_natives_eq mk [string] (by intro s h; simp at h; subst h; exact hs)]
  unfold rpm_from_native rpm_from_natives
  simp only [List.mapM_cons, List.mapM_nil, bind, Except.bind, pure, Except.pure]
  cases rpm_build_constraint mk string <;> rfl

example : deb_from_natives (fun v => .ok v) ["(>> 2.23)".toList, "<< 2.24".toList]
    = .ok [.mk .gt "2.23".toList, .mk .lt "2.24".toList] := by rfl

example : rpm_from_native (fun v => .ok v) "<> 1.0-1".toList = .ok [.mk .ne "1.0-1".toList] := by rfl

end Univers.Gen.Text
