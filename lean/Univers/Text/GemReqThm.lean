/-
Theorems about the RubyGems native range converter (`Univers/Text/GemReq.lean`).
-/
import Univers.Text.GemReq
import Univers.Text.GemReqSpec
import Univers.Scheme.GemThm
import Univers.Vers.Spec

namespace Univers.Text.GemReq

open Std Univers Univers.Text Univers.Text.GP Univers.Gem

/-- decidable equality of results, for the closed counterexamples -/
@[instance_reducible] def exceptDecEq {ε α : Type} [DecidableEq ε] [DecidableEq α] : DecidableEq (Except ε α)
  | .ok a, .ok b => if h : a = b then isTrue (by rw [h]) else isFalse (by intro h'; injection h'; contradiction)
  | .error a, .error b =>
    if h : a = b then isTrue (by rw [h]) else isFalse (by intro h'; injection h'; contradiction)
  | .ok _, .error _ => isFalse (by intro h; cases h)
  | .error _, .ok _ => isFalse (by intro h; cases h)

attribute [local instance] exceptDecEq

/-! ### well-formed versions through the pipeline -/

theorem wf_join (ns : List Nat) : WellFormed ⟨joinDots (ns.map natStr)⟩ := by
  have hsp : noSpace (joinDots (ns.map natStr)) = true := by
    simp only [noSpace, List.all_eq_true]
    intro c hc
    simp [isDigDot_not_space c (join_chars ns c hc)]
  have hg := gemVersion_join ns
  have hcor : isCorrect (joinDots (ns.map natStr)) = true := by
    by_cases hc : isCorrect (joinDots (ns.map natStr)) = true
    · exact hc
    · simp [gemVersion, hc] at hg
  simp [WellFormed, wellFormed, hsp, hcor]

theorem release_wf (v r : Raw) (hv : WellFormed v) (h : release v = .ok r) : WellFormed r := by
  rw [release_eq] at h
  injection h with h
  subst h
  split
  · exact wf_join _
  · exact hv

theorem bump_wf (v b : Raw) (h : bump v = .ok b) : WellFormed b := by
  obtain ⟨p, x, q, _, hb⟩ := bump_eq v b h
  subst hb
  exact wf_join _

theorem alnum_not_space (c : Char) (hk : isAlnum c = true) : isPySpace c = false := by
  simp only [isAlnum, isDig, isAlpha, Char.isDigit, Bool.or_eq_true, Bool.and_eq_true,
      decide_eq_true_eq, Char.le_def, ge_iff_le, UInt32.le_iff_toNat_le] at hk
  simp only [isPySpace, Bool.or_eq_false_iff, Bool.and_eq_false_iff, decide_eq_false_iff_not,
    Char.toNat]
  have e1 : ('0' : Char).val.toNat = 48 := rfl
  have e2 : ('9' : Char).val.toNat = 57 := rfl
  have e3 : ('a' : Char).val.toNat = 97 := rfl
  have e4 : ('z' : Char).val.toNat = 122 := rfl
  have e5 : ('A' : Char).val.toNat = 65 := rfl
  have e6 : ('Z' : Char).val.toNat = 90 := rfl
  rw [e1, e2, e3, e4, e5, e6] at hk
  omega

/-- the characters the automaton of `VERSION_PATTERN` can read -/
def isVerCh (c : Char) : Bool := isAlnum c || c == '.' || c == '-'

theorem step_verCh (s s' : St) (c : Char) (h : step s c = some s') : isVerCh c = true := by
  by_cases ha : isAlnum c = true
  · simp [isVerCh, ha]
  · by_cases hd : c = '.'
    · simp [isVerCh, hd]
    · by_cases hm : c = '-'
      · simp [isVerCh, hm]
      · have ha' : isAlnum c = false := by simpa using ha
        have hdg : isDig c = false := by
          simp only [isAlnum, Bool.or_eq_false_iff] at ha'; exact ha'.1
        cases s <;> simp [step, ha', hd, hm, hdg] at h

theorem verCh_not_space (c : Char) (h : isVerCh c = true) : isPySpace c = false := by
  simp only [isVerCh, Bool.or_eq_true, beq_iff_eq] at h
  rcases h with (h | h) | h
  · exact alnum_not_space c h
  · subst h; decide
  · subst h; decide

theorem step_not_space (s s' : St) (c : Char) (h : step s c = some s') : isPySpace c = false :=
  verCh_not_space c (step_verCh s s' c h)

theorem run_noSpace (s : St) (v : List Char) (h : run s v = true) : noSpace v = true := by
  induction v generalizing s with
  | nil => rfl
  | cons c cs ih =>
    simp only [run] at h
    cases hs : step s c with
    | none => simp [hs] at h
    | some s' =>
      simp only [hs] at h
      simp only [noSpace, List.all_cons, Bool.and_eq_true, Bool.not_eq_true']
      exact ⟨step_not_space s s' c hs, ih s' h⟩

theorem run_ne_nil (v : List Char) (h : run .d0 v = true) : v ≠ [] := by
  intro h0; subst h0; simp [run, accepting] at h

theorem gemVersion_of_run (v : List Char) (h : run .d0 v = true) :
    gemVersion v = .ok ⟨v⟩ ∧ WellFormed ⟨v⟩ := by
  have hsp := run_noSpace _ _ h
  have hst := strip_of_noSpace _ hsp
  have hcor : isCorrect v = true := by simp [isCorrect, hst, h]
  exact ⟨by simp [gemVersion, hcor, hst], by simp [WellFormed, wellFormed, hsp, hcor]⟩

/-! ### `~>` (C18) -/

/-- on a well-formed version `get_tilde_constraints` never fails: lower bound = the version
itself, upper bound = the bump of the release -/
theorem tildeOfVersion_ok (v : Raw) (hv : WellFormed v) :
    ∃ rel hi, tildeOfVersion v = .ok [⟨.ge, v⟩, ⟨.lt, hi⟩] ∧ release v = .ok rel ∧ bump rel = .ok hi
      ∧ WellFormed rel ∧ WellFormed hi := by
  obtain ⟨rel, hrel⟩ := release_ok v
  have wrel := release_wf v rel hv hrel
  obtain ⟨hi, hhi⟩ := bump_ok rel wrel
  exact ⟨rel, hi, by simp [tildeOfVersion, hrel, hhi, liftV], hrel, hhi, wrel, bump_wf rel hi hhi⟩

theorem isPrerelease_relVer (ns : List Nat) : isPrerelease (relVer ns) = false := by
  simp only [isPrerelease, relVer, relText, segs_join]
  split
  · decide
  · simp [Seg.isNum]

theorem incrLast_append (p : List Nat) (x : Nat) : incrLast (p ++ [x]) = some (p ++ [x + 1]) := by
  induction p with
  | nil => rfl
  | cons a p ih =>
    cases hp : p ++ [x] with
    | nil => simp at hp
    | cons b r =>
      simp only [List.cons_append, hp, incrLast]
      rw [← hp, ih]; rfl

theorem tildeUpper_eq : ∀ ns : List Nat, ns ≠ [] →
    incrLast (if ns.length > 1 then ns.dropLast else ns) = some (tildeUpper ns)
  | [], h => absurd rfl h
  | [a], _ => rfl
  | [a, b], _ => rfl
  | a :: b :: c :: rest, _ => by
    have ih := tildeUpper_eq (b :: c :: rest) (by simp)
    simp only [List.length_cons, gt_iff_lt, Nat.lt_add_left_iff_pos, Nat.zero_lt_succ,
      ↓reduceIte] at ih
    have : (a :: b :: c :: rest).length > 1 := by simp
    simp only [this, ↓reduceIte, List.dropLast_cons_cons, tildeUpper]
    simp only [List.dropLast_cons_cons] at ih
    cases hd : (b :: (c :: rest).dropLast) with
    | nil => simp at hd
    | cons x xs =>
      rw [hd] at ih
      simp only [incrLast, ih, Option.map_some]

theorem leadingNums_map_num (ns : List Nat) : leadingNums (ns.map Seg.num) = ns := by
  induction ns with
  | nil => rfl
  | cons a r ih => simp only [List.map_cons, leadingNums, ih]

theorem bump_relVer (ns : List Nat) (h : ns ≠ []) : bump (relVer ns) = .ok (relVer (tildeUpper ns)) := by
  unfold bump
  have hs : (relVer ns).segs = ns.map Seg.num := by
    simp [relVer, relText, segs_join, h]
  simp only [hs, leadingNums_map_num, tildeUpper_eq ns h]
  exact gemVersion_join _

/-- **`gem_tilde_exact`** (C06/C18): on a release version `n₁.….nₖ` the pessimistic operator is
`>= n₁.….nₖ , < tildeUpper`, i.e. `~> a.b.c := >= a.b.c, < a.(b+1)`, `~> a.b := >= a.b, < (a+1)`,
`~> a := >= a, < (a+1)` -/
theorem gem_tilde_exact (ns : List Nat) (h : ns ≠ []) :
    tildeOfVersion (relVer ns) = .ok [⟨.ge, relVer ns⟩, ⟨.lt, relVer (tildeUpper ns)⟩] := by
  have hr : release (relVer ns) = .ok (relVer ns) := by
    rw [release_eq, isPrerelease_relVer]; rfl
  simp [tildeOfVersion, hr, bump_relVer ns h, liftV]

theorem gem_tilde_exact3 (a b c : Nat) :
    tildeOfVersion (relVer [a, b, c]) = .ok [⟨.ge, relVer [a, b, c]⟩, ⟨.lt, relVer [a, b + 1]⟩] :=
  gem_tilde_exact [a, b, c] (by simp)

theorem gem_tilde_exact2 (a b : Nat) :
    tildeOfVersion (relVer [a, b]) = .ok [⟨.ge, relVer [a, b]⟩, ⟨.lt, relVer [a + 1]⟩] :=
  gem_tilde_exact [a, b] (by simp)

theorem gem_tilde_exact1 (a : Nat) :
    tildeOfVersion (relVer [a]) = .ok [⟨.ge, relVer [a]⟩, ⟨.lt, relVer [a + 1]⟩] :=
  gem_tilde_exact [a] (by simp)

/-- **`gem_tilde_bounds`** (C18): for EVERY well-formed version `v` (prereleases included),
`~> v` is `[>= v, < hi]` with `v < hi` (the range is never empty) and `v` satisfies both bounds -/
theorem gem_tilde_bounds (v : Raw) (hv : WellFormed v) :
    ∃ hi, tildeOfVersion v = .ok [⟨.ge, v⟩, ⟨.lt, hi⟩] ∧ vercmp v hi = .lt
      ∧ Cmpr.holds .ge (vercmp v v) = true ∧ Cmpr.holds .lt (vercmp v hi) = true := by
  obtain ⟨rel, hi, ht, hrel, hhi, _, _⟩ := tildeOfVersion_ok v hv
  have h1 := vercmp_bump rel hi hhi
  have h2 := vercmp_release v rel hrel
  have hlt : vercmp v hi = .lt := by
    cases h3 : vercmp v rel with
    | lt => exact TransCmp.lt_trans h3 h1
    | eq => exact TransCmp.lt_of_eq_of_lt h3 h1
    | gt => exact absurd h3 h2
  have hrefl : vercmp v v = .eq := ReflCmp.compare_self
  exact ⟨hi, ht, hlt, by simp [Cmpr.holds, hrefl], by simp [Cmpr.holds, hlt]⟩

/-- the repaired prerelease case: `~> 1.0.a` is `>= 1.0.a, < 2`, and `1.0.a` is accepted by the
range and by `satisfied_by` alike -/
theorem gem_tilde_prerelease_example :
    tildeOfVersion ⟨"1.0.a".toList⟩ = .ok [⟨.ge, ⟨"1.0.a".toList⟩⟩, ⟨.lt, ⟨"2".toList⟩⟩]
    ∧ Cmpr.holds .ge (vercmp ⟨"1.0.a".toList⟩ ⟨"1.0.a".toList⟩) = true
    ∧ Cmpr.holds .lt (vercmp ⟨"1.0.a".toList⟩ ⟨"2".toList⟩) = true
    ∧ satisfiedBy [⟨.tilde, ⟨"1.0.a".toList⟩⟩] ⟨"1.0.a".toList⟩ = .ok true := by
  refine ⟨by rfl, by decide +kernel, by decide +kernel, by decide +kernel⟩

/-! ### which errors can escape (C16) -/

theorem matchWith_run (t : List Char) (o : Op) (v : List Char) (h : matchWith t o = some v) :
    run .d0 v = true := by
  unfold matchWith at h
  split at h
  · dsimp only at h
    split at h
    · injection h with h; subst h; assumption
    · cases h
  · cases h

theorem patternMatch_run (r : List Char) (g1 : Option Op) (g2 : List Char)
    (h : patternMatch r = some (g1, g2)) : run .d0 g2 = true := by
  unfold patternMatch at h
  dsimp only at h
  split at h
  · rename_i o v hf
    injection h with h
    obtain ⟨o', _, ho'⟩ := List.exists_of_findSome?_eq_some hf
    cases hm : matchWith (GP.strip r) o' with
    | none => rw [hm] at ho'; cases ho'
    | some v' =>
      rw [hm] at ho'
      simp only [Option.map_some, Option.some.injEq, Prod.mk.injEq] at ho'
      have := matchWith_run _ _ _ hm
      simp only [Prod.mk.injEq] at h
      rw [← h.2, ← ho'.2]; exact this
  · split at h
    · rename_i hr
      injection h with h
      simp only [Prod.mk.injEq] at h
      rw [← h.2]; exact hr
    · cases h

/-- `parse` raises nothing but `InvalidRequirementError`, and yields well-formed versions -/
theorem parse_cases (r : List Char) :
    parse r = .error invalidRequirement ∨ ∃ gc, parse r = .ok gc ∧ WellFormed gc.version := by
  unfold parse
  cases hp : patternMatch r with
  | none => left; rfl
  | some g =>
    obtain ⟨g1, g2⟩ := g
    right
    have hr := patternMatch_run r g1 g2 hp
    obtain ⟨hg, hw⟩ := gemVersion_of_run g2 hr
    simp only []
    split
    · exact ⟨_, rfl, by decide⟩
    · simp only [hg, liftV]
      exact ⟨_, rfl, hw⟩

abbrev AllWF (l : List GC) : Prop := ∀ gc ∈ l, WellFormed gc.version
abbrev NoTilde (l : List GC) : Prop := ∀ gc ∈ l, gc.op ≠ .tilde

theorem parseAll_cases (rs : List (List Char)) :
    parseAll rs = .error invalidRequirement ∨ ∃ l, parseAll rs = .ok l ∧ AllWF l := by
  induction rs with
  | nil => right; exact ⟨[], rfl, by intro _ h; cases h⟩
  | cons r rest ih =>
    unfold parseAll
    rcases parse_cases r with h | ⟨gc, h, hw⟩
    · left; simp [h]
    · rcases ih with h' | ⟨l, h', hl⟩
      · left; simp [h, h']
      · right
        refine ⟨gc :: l, by simp [h, h'], ?_⟩
        intro x hx
        rcases List.mem_cons.mp hx with hx | hx
        · subst hx; exact hw
        · exact hl x hx

theorem init_cases (rs : List (List Char)) :
    init rs = .error invalidRequirement ∨ ∃ l, init rs = .ok l ∧ AllWF l ∧ l ≠ [] := by
  unfold init
  split
  · right
    refine ⟨_, rfl, ?_, by simp⟩
    intro x hx
    simp only [List.mem_singleton] at hx
    subst hx; decide
  · rename_i hne
    rcases parseAll_cases rs with h | ⟨l, h, hl⟩
    · left; exact h
    · right
      refine ⟨l, h, hl, ?_⟩
      intro h0; subst h0
      cases rs with
      | nil => simp at hne
      | cons r rest =>
        unfold parseAll at h
        repeat' split at h
        all_goals cases h

theorem expandTildes_ok (l : List GC) (hl : AllWF l) :
    ∃ l', expandTildes l = .ok l' ∧ AllWF l' ∧ NoTilde l' ∧ (l ≠ [] → l' ≠ []) := by
  induction l with
  | nil =>
    refine ⟨[], rfl, ?_, ?_, id⟩
    · intro _ h; cases h
    · intro _ h; cases h
  | cons gc rest ih =>
    obtain ⟨more, hm, hw, hn, _⟩ := ih (fun x hx => hl x (List.mem_cons_of_mem _ hx))
    unfold expandTildes
    by_cases ht : gc.op = .tilde
    · have wlo := hl gc (by simp)
      obtain ⟨_, hi, ht', _, _, _, whi⟩ := tildeOfVersion_ok gc.version wlo
      refine ⟨[⟨.ge, gc.version⟩, ⟨.lt, hi⟩] ++ more, by simp [ht, getTildeConstraints, ht', hm], ?_, ?_, by simp⟩
      · intro x hx
        simp only [List.cons_append, List.nil_append, List.mem_cons] at hx
        rcases hx with hx | hx | hx
        · subst hx; exact wlo
        · subst hx; exact whi
        · exact hw x hx
      · intro x hx
        simp only [List.cons_append, List.nil_append, List.mem_cons] at hx
        rcases hx with hx | hx | hx
        · subst hx; simp
        · subst hx; simp
        · exact hn x hx
    · refine ⟨gc :: more, by simp [ht, hm], ?_, ?_, by simp⟩
      · intro x hx
        rcases List.mem_cons.mp hx with hx | hx
        · subst hx; exact hl _ (by simp)
        · exact hw x hx
      · intro x hx
        rcases List.mem_cons.mp hx with hx | hx
        · subst hx; exact ht
        · exact hn x hx

theorem dedupLoop_subset (seen l : List GC) : ∀ x ∈ dedupLoop seen l, x ∈ l := by
  induction l generalizing seen with
  | nil => intro x hx; simp [dedupLoop] at hx
  | cons gc rest ih =>
    intro x hx
    unfold dedupLoop at hx
    split at hx
    · exact List.mem_cons_of_mem _ (ih _ x hx)
    · rcases List.mem_cons.mp hx with hx | hx
      · subst hx; simp
      · exact List.mem_cons_of_mem _ (ih _ x hx)

theorem sortConstraints_subset (l : List GC) : ∀ x ∈ sortConstraints l, x ∈ l := by
  intro x hx
  have := dedupLoop_subset [] _ x hx
  exact (List.mergeSort_perm l _).mem_iff.mp this

theorem conOf_ok (gc : GC) (hw : WellFormed gc.version) (ht : gc.op ≠ .tilde) :
    ∃ c, gc.op.cmpr? = some c ∧ conOf gc = .ok (.mk c gc.version.original) := by
  have hr := str_roundtrip gc.version hw
  simp only [Gem.str] at hr
  cases ho : gc.op.cmpr? with
  | none => cases hop : gc.op <;> simp_all [Op.cmpr?]
  | some c => exact ⟨c, rfl, by simp [conOf, hr, liftV, ho, Gem.str]⟩

theorem consOf_ok (l : List GC) (hw : AllWF l) (hn : NoTilde l) :
    ∃ cs, consOf l = .ok cs ∧ cs.length = l.length := by
  induction l with
  | nil => exact ⟨[], rfl, rfl⟩
  | cons gc rest ih =>
    obtain ⟨cs, h, hlen⟩ := ih (fun x hx => hw x (List.mem_cons_of_mem _ hx))
      (fun x hx => hn x (List.mem_cons_of_mem _ hx))
    obtain ⟨c, _, hc⟩ := conOf_ok gc (hw gc (by simp)) (hn gc (by simp))
    exact ⟨.mk c gc.version.original :: cs, by simp [consOf, hc, h], by simp [hlen]⟩

theorem simplify_ok (l : List GC) (hl : AllWF l) :
    ∃ l', simplify l = .ok l' ∧ AllWF l' ∧ NoTilde l' := by
  obtain ⟨e, he, hw, hn, _⟩ := expandTildes_ok l hl
  refine ⟨initGC (sortConstraints e), by simp [simplify, he], ?_, ?_⟩
  all_goals
    intro x hx
    unfold initGC at hx
    split at hx
    · simp only [List.mem_singleton] at hx; subst hx; first | decide | simp [defaultConstraint]
    · first
      | exact hw x (sortConstraints_subset e x hx)
      | exact hn x (sortConstraints_subset e x hx)

/-- **`gem_native_declared`** (C16), the shape of every outcome: `from_native` returns, or the
requirement text is rejected by `GemRequirement.parse` with `InvalidRequirementError`.  No
`KeyError` (`~>` is gone after `simplify`), `IndexError` (`bump`), `InvalidVersion`,
`InvalidVersionError`, `ValueError`, `AssertionError` can escape. -/
theorem gem_native_declared (s : List Char) :
    (∃ cs, fromNative s = .ok cs) ∨ fromNative s = .error invalidRequirement := by
  unfold fromNative fromString
  rcases init_cases (splitRequirements s) with h | ⟨l, h, hl, _⟩
  · right; simp [h]
  · left
    obtain ⟨l', hs, hw, hn⟩ := simplify_ok l hl
    obtain ⟨cs, hc, _⟩ := consOf_ok l' hw hn
    exact ⟨cs, by simp [h, hs, hc]⟩

/-- the one exception class that escapes is NOT a declared one: `InvalidRequirementError`
derives from `AttributeError`, not from `ValueError` / `InvalidVersionRange` -/
theorem gem_native_declared_counterexample :
    fromNative "abc".toList = .error (.other "InvalidRequirementError")
    ∧ fromNative [] = .error (.other "InvalidRequirementError")
    ∧ fromNative "1.0 2.0".toList = .error (.other "InvalidRequirementError")
    ∧ (TErr.other "InvalidRequirementError").declared = false := by
  refine ⟨by rfl, by rfl, by rfl, rfl⟩

/-- **`gem_native_declared_partial`**: when every comma-separated item matches the requirement
pattern, `from_native` returns -/
theorem gem_native_declared_partial (s : List Char)
    (h : (splitRequirements s).all (fun r => (patternMatch r).isSome) = true) :
    ∃ cs, fromNative s = .ok cs := by
  rcases gem_native_declared s with h' | h'
  · exact h'
  · exfalso
    unfold fromNative fromString at h'
    rcases init_cases (splitRequirements s) with hi | ⟨l, hi, hl, _⟩
    · -- some item was rejected
      unfold init at hi
      split at hi
      · cases hi
      · clear h'
        generalize splitRequirements s = rs at h hi
        induction rs with
        | nil => cases hi
        | cons r rest ih =>
          simp only [List.all_cons, Bool.and_eq_true] at h
          unfold parseAll at hi
          rcases parse_cases r with hp | ⟨gc, hp, _⟩
          · unfold parse at hp
            cases hm : patternMatch r with
            | none => simp [hm] at h
            | some g =>
              obtain ⟨g1, g2⟩ := g
              have hr := patternMatch_run r g1 g2 hm
              obtain ⟨hg, _⟩ := gemVersion_of_run g2 hr
              simp only [hm, hg, liftV] at hp
              split at hp <;> cases hp
          · simp only [hp] at hi
            cases hr : parseAll rest with
            | error e =>
              simp only [hr] at hi
              injection hi with hi
              subst hi
              exact ih h.2 hr
            | ok l => simp [hr] at hi
    · obtain ⟨l', hs, hw, hn⟩ := simplify_ok l hl
      obtain ⟨cs, hc, _⟩ := consOf_ok l' hw hn
      simp [hi, hs, hc] at h'

example : (splitRequirements ">= 1.0, < 2".toList).all (fun r => (patternMatch r).isSome) = true := by
  decide

/-! ### the in-repo matcher `satisfied_by` is the RubyGems matcher -/

theorem compareOp_eq (op : Op) (x v : Raw) (hv : WellFormed v) :
    compareOp op x v = .ok (opHolds op x v) := by
  have L := valOps_lawful
  cases op
  case tilde =>
    obtain ⟨b, hb⟩ := bump_ok v hv
    obtain ⟨r, hr⟩ := release_ok x
    simp only [compareOp, tildeComparator, opHolds, releaseD, bumpD, hb, hr, liftV, L.ge, L.lt]
    cases vercmp x v <;> simp
  all_goals simp only [compareOp, opHolds, L.eq, L.ne, L.gt, L.lt, L.ge, L.le]

theorem satLoop_eq (cs : List GC) (hw : AllWF cs) (x : Raw) : satLoop x cs = .ok (satSpec cs x) := by
  induction cs with
  | nil => rfl
  | cons gc rest ih =>
    have := compareOp_eq gc.op x gc.version (hw gc (by simp))
    simp only [satLoop, this, satSpec, List.all_cons]
    cases opHolds gc.op x gc.version
    · simp
    · simpa [satSpec] using ih (fun y hy => hw y (List.mem_cons_of_mem _ hy))

/-- **`gem_satisfied_by_spec`**: on a parsed requirement the model of `satisfied_by` (tied to
the code by the correspondence) computes the conjunction of the RubyGems operator table -/
theorem gem_satisfied_by_spec (cs : List GC) (hne : cs ≠ []) (hw : AllWF cs) (x : Raw) :
    satisfiedBy cs x = .ok (satSpec cs x) := by
  cases cs with
  | nil => exact absurd rfl hne
  | cons a r => simpa [satisfiedBy] using satLoop_eq (a :: r) hw x

/-! ### per-operator soundness: a plain clause means its vers constraint -/

/-- **`gem_native_sound_op`**: each of the six plain operators becomes the vers comparator with
the same meaning over `Gem.vercmp` -/
theorem gem_native_sound_op (gc : GC) (c : Con Raw) (h : gc.con? = some c) (x : Raw) :
    Con.holds vercmp x c = opHolds gc.op x gc.version := by
  obtain ⟨op, v⟩ := gc
  cases op <;> simp [GC.con?, Op.cmpr?] at h <;> subst h <;> simp [Con.holds, Cmpr.holds, opHolds]

/-- `bump` only reads the leading numeric segments, which `release` keeps -/
theorem bump_release (v r : Raw) (hv : WellFormed v) (h : release v = .ok r) : bump r = bump v := by
  rw [release_eq] at h
  injection h with h
  subst h
  split
  · have hne := leadingNums_ne_nil v hv
    have hs : (⟨joinDots ((leadingNums v.segs).map natStr)⟩ : Raw).segs
        = (leadingNums v.segs).map Seg.num := by simp [segs_join, hne]
    unfold bump
    simp only [hs, leadingNums_map_num]
  · rfl

/-- the upper bound of `~> v` is `bump v` -/
theorem tilde_upper_eq (v hi : Raw) (hv : WellFormed v)
    (ht : tildeOfVersion v = .ok [⟨.ge, v⟩, ⟨.lt, hi⟩]) : bump v = .ok hi := by
  obtain ⟨rel, hi', ht', hrel, hhi, _, _⟩ := tildeOfVersion_ok v hv
  rw [ht] at ht'
  injection ht' with ht'
  simp only [List.cons.injEq, GC.mk.injEq, true_and, and_true] at ht'
  rw [← bump_release v rel hv hrel, hhi, ht']

/-- **`gem_tilde_sound_release`**: for EVERY well-formed requirement version `v` (prereleases
included) and a RELEASE probe `x`, `~> v` holds iff both produced bounds hold -/
theorem gem_tilde_sound_release (v : Raw) (hv : WellFormed v)
    (x : Raw) (hx : isPrerelease x = false) :
    ∃ hi, tildeOfVersion v = .ok [⟨.ge, v⟩, ⟨.lt, hi⟩] ∧
      opHolds .tilde x v = (Con.holds vercmp x (.mk .ge v) && Con.holds vercmp x (.mk .lt hi)) := by
  obtain ⟨hi, ht, _⟩ := gem_tilde_bounds v hv
  refine ⟨hi, ht, ?_⟩
  have hb := tilde_upper_eq v hi hv ht
  have hrx : release x = .ok x := by rw [release_eq, hx]; rfl
  simp [opHolds, releaseD, bumpD, hb, hrx, Con.holds, Cmpr.holds]

/-- **`gem_tilde_sound_subset`**: for EVERY probe (prereleases included) and every well-formed
requirement version, what RubyGems' `~>` accepts lies in the produced range (the converse fails
only for prereleases of versions at or above the upper bound, see the counterexample below) -/
theorem gem_tilde_sound_subset (v : Raw) (hv : WellFormed v) (x : Raw) :
    ∃ hi, tildeOfVersion v = .ok [⟨.ge, v⟩, ⟨.lt, hi⟩] ∧
      (opHolds .tilde x v = true →
        (Con.holds vercmp x (.mk .ge v) && Con.holds vercmp x (.mk .lt hi)) = true) := by
  obtain ⟨hi, ht, _⟩ := gem_tilde_bounds v hv
  refine ⟨hi, ht, ?_⟩
  have hb := tilde_upper_eq v hi hv ht
  obtain ⟨rx, hrx⟩ := release_ok x
  have hle := vercmp_release x rx hrx
  simp only [opHolds, releaseD, bumpD, hb, hrx, Con.holds, Cmpr.holds, Bool.and_eq_true,
    beq_iff_eq]
  rintro ⟨h1, h2⟩
  refine ⟨h1, ?_⟩
  cases h3 : vercmp x rx with
  | lt => exact TransCmp.lt_trans h3 h2
  | eq => exact TransCmp.lt_of_eq_of_lt h3 h2
  | gt => exact absurd h3 hle

/-- **defect / semantic gap** (C18): `~> 1.0` does not accept the prerelease `2.a` of the upper
bound (RubyGems compares `version.release`), but the produced range `>=1.0|<2` contains it -/
theorem gem_tilde_upper_prerelease_counterexample :
    satisfiedBy [⟨.tilde, ⟨"1.0".toList⟩⟩] ⟨"2.a".toList⟩ = .ok false
    ∧ tildeOfVersion ⟨"1.0".toList⟩ = .ok [⟨.ge, ⟨"1.0".toList⟩⟩, ⟨.lt, ⟨"2".toList⟩⟩]
    ∧ Con.holds vercmp ⟨"2.a".toList⟩ (.mk .ge ⟨"1.0".toList⟩) = true
    ∧ Con.holds vercmp ⟨"2.a".toList⟩ (.mk .lt ⟨"2".toList⟩) = true := by
  refine ⟨by decide +kernel, by rfl, by decide +kernel, by decide +kernel⟩

/-! ### Layer B: on the fragment, the interval reading is the conjunction -/

section Frag
variable {V : Type}

/-- the fragment: besides exclusions, nothing, or one `=`, or one bound, or a lower bound followed
by an upper bound -/
def Frag (cs : List (Con V)) : Prop :=
  match cs.filter (fun c => !c.isNe) with
  | [] => True
  | [c] => c.isEq = true ∨ c.isBound = true
  | [lo, hi] => lo.isLower = true ∧ hi.isUpper = true
  | _ => False

theorem holds_ne (cmp : V → V → Ordering) (x : V) (c : Con V) (h : c.isNe = true) :
    c.holds cmp x = !c.at cmp x := by
  cases c with
  | star => cases h
  | mk k v => cases k <;> simp_all [Con.isNe, Con.holds, Cmpr.holds, Con.at, bne]

theorem all_split (p q : Con V → Bool) (cs : List (Con V)) :
    cs.all p = ((cs.filter q).all p && (cs.filter (fun c => !q c)).all p) := by
  induction cs with
  | nil => rfl
  | cons c r ih =>
    simp only [List.all_cons, List.filter_cons, ih]
    cases q c <;> simp [Bool.and_assoc, Bool.and_left_comm]

theorem denote_unfold (cmp : V → V → Ordering) (cs : List (Con V)) (x : V) (hne : cs ≠ [])
    (hs : noStar cs = true) :
    denote cmp cs x =
      if cs.all Con.isNe then cs.all (fun c => !c.at cmp x)
      else if cs.any (fun c => c.isNe && c.at cmp x) then false
      else if cs.any (fun c => c.isEq && c.at cmp x) then true
      else inIntervals cmp x (cs.filter Con.isBound) := by
  match cs, hne, hs with
  | [], h, _ => exact absurd rfl h
  | [.star], _, h => simp [noStar, Con.isStar] at h
  | [.mk k v], _, _ => simp [denote]
  | a :: b :: rest, _, _ => simp [denote]

/-- **`denote_eq_all_of_frag`**: on the fragment, membership in the interval-set reading of the
constraints = every constraint holds (the RubyGems reading: all clauses apply) -/
theorem denote_eq_all_of_frag (cmp : V → V → Ordering) (cs : List (Con V)) (x : V)
    (hne : cs ≠ []) (hs : noStar cs = true) (hf : Frag cs) :
    denote cmp cs x = cs.all (fun c => c.holds cmp x) := by
  rw [denote_unfold cmp cs x hne hs]
  have hsplit := all_split (fun c => c.holds cmp x) Con.isNe cs
  have hneall : (cs.filter Con.isNe).all (fun c => c.holds cmp x)
      = !cs.any (fun c => c.isNe && c.at cmp x) := by
    clear hsplit hf hs hne
    induction cs with
    | nil => rfl
    | cons c r ih =>
      simp only [List.filter_cons, List.any_cons]
      cases hc : c.isNe
      · simpa using ih
      · simp only [↓reduceIte, List.all_cons, ih, holds_ne cmp x c hc, Bool.true_and]
        cases c.at cmp x <;> simp
  have hbound : cs.filter Con.isBound = (cs.filter (fun c => !c.isNe)).filter Con.isBound := by
    rw [List.filter_filter]
    apply List.filter_congr
    intro c _
    cases c with
    | star => rfl
    | mk k v => cases k <;> rfl
  have heq : cs.any (fun c => c.isEq && c.at cmp x)
      = (cs.filter (fun c => !c.isNe)).any (fun c => c.isEq && c.at cmp x) := by
    rw [List.any_filter]
    congr 1
    funext c
    cases c with
    | star => rfl
    | mk k v => cases k <;> simp [Con.isNe, Con.isEq]
  have hall : cs.all Con.isNe = (cs.filter (fun c => !c.isNe)).isEmpty := by
    clear hsplit hf hs hne hneall hbound heq
    induction cs with
    | nil => rfl
    | cons c r ih =>
      simp only [List.all_cons, List.filter_cons, ih]
      cases c.isNe <;> simp
  rw [hsplit, hneall, hbound, heq, hall]
  have hnone : (cs.filter (fun c => !c.isNe)) = [] →
      cs.all (fun c => !c.at cmp x) = !cs.any (fun c => c.isNe && c.at cmp x) := by
    intro hr
    have hn : ∀ c ∈ cs, c.isNe = true := by
      intro c hc
      have : c ∉ cs.filter (fun c => !c.isNe) := by rw [hr]; simp
      simp only [List.mem_filter, hc, true_and, Bool.not_eq_true', Bool.not_eq_false] at this
      exact this
    clear hsplit hf hs hne hneall hbound heq hall hr
    induction cs with
    | nil => rfl
    | cons c r ih =>
      simp only [List.all_cons, List.any_cons, hn c (by simp), Bool.true_and,
        ih (fun d hd => hn d (List.mem_cons_of_mem _ hd))]
      cases c.at cmp x <;> simp
  unfold Frag at hf
  generalize cs.filter (fun c => !c.isNe) = r at hf hnone
  generalize cs.any (fun c => c.isNe && c.at cmp x) = A at hnone
  match r, hf with
  | [], _ => simp [hnone rfl]
  | [c], hc =>
    cases A
    · cases c with
      | star => simp [Con.isEq, Con.isBound, Con.isUpper, Con.isLower] at hc
      | mk k v =>
        cases k <;> simp [Con.isEq, Con.isBound, Con.isUpper, Con.isLower, Cmpr.isUpper,
          Cmpr.isLower] at hc <;>
          simp [Con.isEq, Con.isBound, Con.isUpper, Con.isLower, Cmpr.isUpper, Cmpr.isLower,
            inIntervals, inPairs, Con.holds, Cmpr.holds, Con.at] <;>
          cases cmp x v <;> rfl
    · simp
  | [lo, hi], hc =>
    cases A
    · cases lo with
      | star => simp [Con.isLower] at hc
      | mk k1 v1 =>
        cases hi with
        | star => simp [Con.isUpper] at hc
        | mk k2 v2 =>
          cases k1 <;> cases k2 <;> simp [Con.isUpper, Con.isLower, Cmpr.isUpper, Cmpr.isLower] at hc <;>
            simp [Con.isEq, Con.isBound, Con.isUpper, Con.isLower, Cmpr.isUpper, Cmpr.isLower,
              inIntervals, inPairs, Con.holds, Cmpr.holds, Con.at]
    · simp
  | _ :: _ :: _ :: _, hc => exact hc.elim

end Frag

/-! ### `gem_native_sound`: the produced range means what `satisfied_by` decides -/

theorem perm_all {α} {l₁ l₂ : List α} (h : l₁.Perm l₂) (p : α → Bool) : l₁.all p = l₂.all p := by
  rw [Bool.eq_iff_iff]
  simp only [List.all_eq_true]
  exact ⟨fun H x hx => H x (h.mem_iff.mpr hx), fun H x hx => H x (h.mem_iff.mp hx)⟩

theorem opHolds_congr (a b : GC) (x : Raw) (ha : a.op ≠ .tilde) (h : gcEq a b = true) :
    opHolds a.op x a.version = opHolds b.op x b.version := by
  simp only [gcEq, Bool.and_eq_true, beq_iff_eq] at h
  obtain ⟨hop, hv⟩ := h
  have hv' : vercmp a.version b.version = .eq := by
    have := valOps_lawful.eq a.version b.version
    rw [hv] at this
    simpa using this.symm
  have hc : vercmp x a.version = vercmp x b.version := TransCmp.congr_right hv'
  rw [← hop]
  cases ho : a.op <;> simp only [opHolds, hc]
  exact absurd ho ha

theorem dedupLoop_all (x : Raw) (seen l : List GC) (hn : NoTilde (seen ++ l)) :
    (seen.all (fun gc => opHolds gc.op x gc.version)
      && (dedupLoop seen l).all (fun gc => opHolds gc.op x gc.version))
    = (seen.all (fun gc => opHolds gc.op x gc.version)
      && l.all (fun gc => opHolds gc.op x gc.version)) := by
  induction l generalizing seen with
  | nil => rfl
  | cons gc rest ih =>
    unfold dedupLoop
    split
    · rename_i hany
      obtain ⟨c, hc, hceq⟩ := List.any_eq_true.mp hany
      have hcong := opHolds_congr c gc x (hn c (by simp [hc])) hceq
      have ih' := ih seen (fun y hy => hn y (by
        simp only [List.mem_append, List.mem_cons] at hy ⊢
        rcases hy with hy | hy
        · exact Or.inl hy
        · exact Or.inr (Or.inr hy)))
      rw [ih', List.all_cons]
      cases hs : seen.all (fun gc => opHolds gc.op x gc.version)
      · rfl
      · have := List.all_eq_true.mp hs c hc
        rw [← hcong, this]; simp
    · have ih' := ih (seen ++ [gc]) (fun y hy => hn y (by
        simp only [List.mem_append, List.mem_cons, List.not_mem_nil,
          or_false] at hy ⊢
        rcases hy with (hy | hy) | hy
        · exact Or.inl hy
        · exact Or.inr (Or.inl hy)
        · exact Or.inr (Or.inr hy)))
      simp only [List.all_append, List.all_cons, List.all_nil, Bool.and_true] at ih' ⊢
      rw [← Bool.and_assoc, ih', Bool.and_assoc]

theorem sortConstraints_satSpec (l : List GC) (hn : NoTilde l) (x : Raw) :
    satSpec (sortConstraints l) x = satSpec l x := by
  have hp := List.mergeSort_perm l (fun a b => !gcLt b a)
  have h := dedupLoop_all x [] (l.mergeSort (fun a b => !gcLt b a))
    (fun y hy => hn y (hp.mem_iff.mp (by simpa using hy)))
  simp only [List.all_nil, Bool.true_and] at h
  unfold satSpec sortConstraints
  rw [h]
  exact perm_all hp _

theorem sortConstraints_ne_nil (l : List GC) (h : l ≠ []) : sortConstraints l ≠ [] := by
  unfold sortConstraints
  cases hm : l.mergeSort (fun a b => !gcLt b a) with
  | nil =>
    have := List.length_mergeSort (le := fun a b => !gcLt b a) l
    rw [hm] at this
    cases l with
    | nil => exact absurd rfl h
    | cons _ _ => simp at this
  | cons a r => simp [dedupLoop]

/-- if there is a `~>` clause (on any version, prereleases included) the probe is a release -/
abbrev TildeOK (l : List GC) (x : Raw) : Prop :=
  ∀ gc ∈ l, gc.op = .tilde → isPrerelease x = false

theorem expandTildes_satSpec (l e : List GC) (hw : AllWF l) (x : Raw) (ht : TildeOK l x)
    (h : expandTildes l = .ok e) : satSpec e x = satSpec l x := by
  induction l generalizing e with
  | nil => cases h; rfl
  | cons gc rest ih =>
    obtain ⟨more, hm, _⟩ := expandTildes_ok rest (fun y hy => hw y (List.mem_cons_of_mem _ hy))
    have ih' := ih more (fun y hy => hw y (List.mem_cons_of_mem _ hy))
      (fun y hy => ht y (List.mem_cons_of_mem _ hy)) hm
    unfold expandTildes at h
    by_cases hti : gc.op = .tilde
    · have hx := ht gc (by simp) hti
      obtain ⟨hi, hto, hsem⟩ := gem_tilde_sound_release gc.version (hw gc (by simp)) x hx
      simp only [hti, beq_self_eq_true, ↓reduceIte, getTildeConstraints, bne_self_eq_false,
        Bool.false_eq_true, hto, hm] at h
      injection h with h
      subst h
      simp only [satSpec, List.cons_append, List.nil_append, List.all_cons] at ih' ⊢
      rw [ih', hti, hsem]
      simp [Con.holds, Cmpr.holds, opHolds, Bool.and_assoc]
    · simp only [hti, beq_iff_eq, ↓reduceIte, hm] at h
      injection h with h
      subst h
      simp only [satSpec, List.cons_append, List.nil_append, List.all_cons] at ih' ⊢
      rw [ih']

theorem fromString_ok (s : List Char) (gcs : List GC) (h : fromString s = .ok gcs) :
    AllWF gcs ∧ gcs ≠ [] := by
  unfold fromString at h
  rcases init_cases (splitRequirements s) with h' | ⟨l, h', hl, hne⟩
  · rw [h'] at h; cases h
  · rw [h'] at h; injection h with h; subst h; exact ⟨hl, hne⟩

/-- the text constraints `from_native` returns are the textual image (`str`) of the simplified
requirement -/
theorem consOf_eq (l : List GC) (hw : AllWF l) (hn : NoTilde l) :
    consOf l = .ok (l.filterMap (fun gc => gc.op.cmpr?.map (fun c => Con.mk c (Gem.str gc.version)))) := by
  induction l with
  | nil => rfl
  | cons gc rest ih =>
    obtain ⟨c, hc, hco⟩ := conOf_ok gc (hw gc (by simp)) (hn gc (by simp))
    have ih' := ih (fun y hy => hw y (List.mem_cons_of_mem _ hy)) (fun y hy => hn y (List.mem_cons_of_mem _ hy))
    simp [consOf, hco, ih', hc, Gem.str]

theorem cons_all_eq_satSpec (l : List GC) (hn : NoTilde l) (x : Raw) :
    (l.filterMap GC.con?).all (fun c => c.holds vercmp x) = satSpec l x := by
  induction l with
  | nil => rfl
  | cons gc rest ih =>
    have ih' := ih (fun y hy => hn y (List.mem_cons_of_mem _ hy))
    cases hc : gc.con? with
    | none =>
      exfalso
      have := hn gc (by simp)
      cases ho : gc.op <;> simp_all [GC.con?, Op.cmpr?]
    | some c =>
      simp only [List.filterMap_cons, hc, List.all_cons, satSpec] at ih' ⊢
      rw [ih', gem_native_sound_op gc c hc x]

theorem filterMap_con_length (l : List GC) (hn : NoTilde l) :
    (l.filterMap GC.con?).length = l.length := by
  induction l with
  | nil => rfl
  | cons gc rest ih =>
    have ih' := ih (fun y hy => hn y (List.mem_cons_of_mem _ hy))
    have := hn gc (by simp)
    cases hc : gc.con? with
    | none => cases ho : gc.op <;> simp_all [GC.con?, Op.cmpr?]
    | some c => simp [hc, ih']

/-- **`gem_native_sound`** (C06 gem part): let `gcs` be the parsed requirement and `gr` its
simplification (what `from_native` turns into the range).  If the probe `x` is a release whenever the
requirement has a `~>` clause (on any version), and the produced constraints are in the fragment (besides
exclusions: one `=`, or one bound, or a lower and an upper bound), then membership of `x` in the
interval reading of the produced constraints over `Gem.vercmp` is exactly
`GemRequirement.satisfied_by(x)`. -/
theorem gem_native_sound (s : List Char) (gcs gr : List GC)
    (h1 : fromString s = .ok gcs) (h2 : simplify gcs = .ok gr) (x : Raw) (ht : TildeOK gcs x)
    (hf : Frag (gr.filterMap GC.con?)) :
    satisfiedBy gcs x = .ok (denote vercmp (gr.filterMap GC.con?) x)
    ∧ fromNative s = .ok (gr.filterMap
        (fun gc => gc.op.cmpr?.map (fun c => Con.mk c (Gem.str gc.version)))) := by
  obtain ⟨hw, hne⟩ := fromString_ok s gcs h1
  obtain ⟨e, he, hwe, hne', hnn⟩ := expandTildes_ok gcs hw
  have hgr : gr = sortConstraints e := by
    simp only [simplify, he] at h2
    injection h2 with h2
    rw [← h2, initGC]
    simp [sortConstraints_ne_nil e (hnn hne)]
  have hwr : AllWF gr := fun y hy => hwe y (sortConstraints_subset e y (hgr ▸ hy))
  have hnr : NoTilde gr := fun y hy => hne' y (sortConstraints_subset e y (hgr ▸ hy))
  have hgne : gr ≠ [] := hgr ▸ sortConstraints_ne_nil e (hnn hne)
  constructor
  · rw [gem_satisfied_by_spec gcs hne hw x]
    congr 1
    have hcne : gr.filterMap GC.con? ≠ [] := by
      intro h0
      have := filterMap_con_length gr hnr
      rw [h0] at this
      cases gr with
      | nil => exact absurd rfl hgne
      | cons g r => simp at this
    have hstar : noStar (gr.filterMap GC.con?) = true := by
      simp only [noStar, List.all_eq_true, List.mem_filterMap]
      rintro c ⟨g, _, hg⟩
      simp only [GC.con?, Option.map_eq_some_iff] at hg
      obtain ⟨k, _, hk⟩ := hg
      subst hk; rfl
    rw [denote_eq_all_of_frag vercmp _ x hcne hstar hf, cons_all_eq_satSpec gr hnr x, hgr,
      sortConstraints_satSpec e hne' x, expandTildes_satSpec gcs e hw x ht he]
  · simp only [fromNative, h1, h2]
    exact consOf_eq gr hwr hnr

/-! ### the fragment hypothesis is met by the basic shapes -/

theorem sortConstraints_single (gc : GC) : sortConstraints [gc] = [gc] := by
  simp [sortConstraints, dedupLoop]

theorem sortConstraints_pair (a b : GC) (h1 : gcLt b a = false) (h2 : gcEq a b = false) :
    sortConstraints [a, b] = [a, b] := by
  simp [sortConstraints, List.mergeSort, List.MergeSort.Internal.splitInTwo, h1, dedupLoop, h2]

/-- one plain clause: the produced range is the single constraint, and it means the clause -/
theorem gem_native_sound_single (gc : GC) (hn : gc.op ≠ .tilde) (x : Raw) :
    simplify [gc] = .ok [gc] ∧
    denote vercmp ([gc].filterMap GC.con?) x = opHolds gc.op x gc.version := by
  constructor
  · have : expandTildes [gc] = .ok [gc] := by simp [expandTildes, hn]
    simp [simplify, this, sortConstraints_single, initGC]
  · obtain ⟨op, v⟩ := gc
    cases op <;> first
      | exact absurd rfl hn
      | (simp [GC.con?, Op.cmpr?, denote, opHolds, Con.isNe, Con.at, Con.isEq, Con.isBound,
          Con.isUpper, Con.isLower, Cmpr.isUpper, Cmpr.isLower, inIntervals, inPairs, Con.holds,
          Cmpr.holds] <;> cases vercmp x v <;> rfl)

/-- one `~>` clause on any well-formed version, probed with a release version: the produced range
`[>= v, < hi]` contains `x` iff RubyGems' `~>` accepts `x` -/
theorem gem_native_sound_tilde (v : Raw) (hv : WellFormed v)
    (x : Raw) (hx : isPrerelease x = false) :
    ∃ hi, simplify [⟨.tilde, v⟩] = .ok [⟨.ge, v⟩, ⟨.lt, hi⟩] ∧
      denote vercmp [.mk .ge v, .mk .lt hi] x = opHolds .tilde x v := by
  obtain ⟨hi, ht, hsem⟩ := gem_tilde_sound_release v hv x hx
  obtain ⟨hi', ht', hlt, _⟩ := gem_tilde_bounds v hv
  have : hi' = hi := by
    rw [ht] at ht'; injection ht' with ht'
    simp only [List.cons.injEq, GC.mk.injEq, true_and, and_true] at ht'
    exact ht'.symm
  subst this
  refine ⟨hi', ?_, ?_⟩
  · have he : expandTildes [⟨.tilde, v⟩] = .ok [⟨.ge, v⟩, ⟨.lt, hi'⟩] := by
      simp [expandTildes, getTildeConstraints, ht]
    have L := valOps_lawful
    have hgt : vercmp hi' v = .gt := OrientedCmp.gt_of_lt hlt
    have h1 : gcLt ⟨.lt, hi'⟩ ⟨.ge, v⟩ = false := by simp [gcLt, L.eq, L.lt, hgt]
    have h2 : gcEq ⟨.ge, v⟩ ⟨.lt, hi'⟩ = false := by simp [gcEq]
    simp [simplify, he, sortConstraints_pair _ _ h1 h2, initGC]
  · rw [hsem]
    simp [denote, Con.isNe, Con.at, Con.isEq, Con.isBound, Con.isUpper, Con.isLower,
      Cmpr.isUpper, Cmpr.isLower, inIntervals, inPairs, Con.holds, Cmpr.holds]

/-! ### exactness of the text layer (C15/C06): every spelling parses to the stated clauses -/

section Exact

def ldrop (q : Char → Bool) (s : List Char) : List Char := s.dropWhile q
def rdrop (q : Char → Bool) (s : List Char) : List Char := (s.reverse.dropWhile q).reverse

theorem stripSet_eq (q : Char → Bool) (s : List Char) : stripSet q s = rdrop q (ldrop q s) := rfl
theorem strip_eq (s : List Char) : GP.strip s = rdrop isSp (ldrop isSp s) := rfl

theorem ldrop_hard (q : Char → Bool) (A : List Char) (h : Char) (t : List Char) (hq : q h = false) :
    ldrop q (A ++ h :: t) = ldrop q A ++ h :: t := by
  induction A with
  | nil => simp [ldrop, hq]
  | cons a A ih =>
    simp only [ldrop, List.cons_append, List.dropWhile_cons] at ih ⊢
    cases q a
    · rfl
    · simpa using ih

theorem rdrop_hard (q : Char → Bool) (Z : List Char) (i : List Char) (l : Char) (hq : q l = false) :
    rdrop q ((i ++ [l]) ++ Z) = (i ++ [l]) ++ rdrop q Z := by
  unfold rdrop
  have := ldrop_hard q Z.reverse l i.reverse hq
  simp only [ldrop] at this
  simp [List.reverse_append, this]

theorem ldrop_all (q : Char → Bool) (a l : List Char) (h : a.all q = true) :
    ldrop q (a ++ l) = ldrop q l := by
  unfold ldrop
  exact List.dropWhile_append_of_pos (fun x hx => List.all_eq_true.mp h x hx)

theorem ldrop_all_nil (q : Char → Bool) (a : List Char) (h : a.all q = true) : ldrop q a = [] := by
  have := ldrop_all q a [] h
  simpa [ldrop] using this

theorem ldrop_subset (q : Char → Bool) (l : List Char) : ∀ x ∈ ldrop q l, x ∈ l :=
  fun _ hx => (List.dropWhile_sublist q).mem hx

/-- soft characters: white space, parentheses, the comma -/
def isSoft (c : Char) : Bool := isSp c || isParen c || c == ','

theorem soft_sp (c : Char) (h : isSoft c = false) : isSp c = false := by
  simp only [isSoft, Bool.or_eq_false_iff] at h; exact h.1.1
theorem soft_paren (c : Char) (h : isSoft c = false) : isParen c = false := by
  simp only [isSoft, Bool.or_eq_false_iff] at h; exact h.1.2
theorem soft_comma (c : Char) (h : isSoft c = false) : c ≠ ',' := by
  simp only [isSoft, Bool.or_eq_false_iff] at h; simpa using h.2

theorem sp_not_paren (c : Char) (h : isSp c = true) : isParen c = false := by
  simp only [isParen, Bool.or_eq_false_iff, beq_eq_false_iff_ne]
  constructor <;> (intro hc; subst hc; exact absurd h (by decide))

theorem paren_not_sp (c : Char) (h : isParen c = true) : isSp c = false := by
  cases hs : isSp c with
  | false => rfl
  | true => rw [sp_not_paren c hs] at h; cases h

/-- leading part of the text: spaces, then parentheses, then spaces: after `strip` and
`strip("()")` only spaces are left of it -/
theorem lead_trim (pre lp w : List Char) (hpre : allSp pre = true) (hlp : lp.all isParen = true)
    (hw : allSp w = true) : allSp (ldrop isParen (ldrop isSp (pre ++ lp ++ w))) = true := by
  rw [List.append_assoc, ldrop_all isSp pre _ hpre]
  cases lp with
  | nil =>
    rw [List.nil_append, ldrop_all_nil isSp w hw]; rfl
  | cons c lp' =>
    have hc : isParen c = true := by simp only [List.all_cons, Bool.and_eq_true] at hlp; exact hlp.1
    have : ldrop isSp ((c :: lp') ++ w) = (c :: lp') ++ w := by
      simp [ldrop, paren_not_sp c hc]
    rw [this, ldrop_all isParen _ _ hlp]
    simp only [allSp, List.all_eq_true] at hw ⊢
    exact fun x hx => hw x (ldrop_subset _ _ x hx)

theorem trail_trim (w rp post : List Char) (hpost : allSp post = true) (hrp : rp.all isParen = true)
    (hw : allSp w = true) : allSp (rdrop isParen (rdrop isSp (w ++ rp ++ post))) = true := by
  have h := lead_trim post.reverse rp.reverse w.reverse (by simpa [allSp] using hpost)
    (by simpa using hrp) (by simpa [allSp] using hw)
  simp only [rdrop, ldrop, List.reverse_append, List.reverse_reverse, allSp, List.all_reverse,
    List.append_assoc] at h ⊢
  exact h

/-- the part of a clause that survives `strip`, and what precedes it -/
def Clause.core (c : Clause) : List Char :=
  match c.op with
  | some o => o.text ++ c.w2 ++ c.ver
  | none => c.ver

def Clause.lead (c : Clause) : List Char :=
  match c.op with
  | some _ => c.w1
  | none => c.w1 ++ c.w2

theorem Clause.text_eq (c : Clause) : c.text = c.lead ++ c.core ++ c.w3 := by
  cases h : c.op <;> simp [Clause.text, Clause.lead, Clause.core, opText, h]

theorem ok_parts (c : Clause) (h : c.ok = true) :
    allSp c.w1 = true ∧ allSp c.w2 = true ∧ allSp c.w3 = true ∧ run .d0 c.ver = true := by
  simp only [Clause.ok, Bool.and_eq_true] at h
  exact ⟨h.1.1.1, h.1.1.2, h.1.2, h.2⟩

theorem lead_sp (c : Clause) (h : c.ok = true) : allSp c.lead = true := by
  obtain ⟨h1, h2, _, _⟩ := ok_parts c h
  cases ho : c.op <;> simp_all [Clause.lead, allSp]

theorem run_verCh (s : St) (v : List Char) (h : run s v = true) : ∀ c ∈ v, isVerCh c = true := by
  induction v generalizing s with
  | nil => intro _ hc; cases hc
  | cons a r ih =>
    simp only [run] at h
    cases hs : step s a with
    | none => simp [hs] at h
    | some s' =>
      simp only [hs] at h
      intro c hc
      rcases List.mem_cons.mp hc with hc | hc
      · subst hc; exact step_verCh s s' _ hs
      · exact ih s' h c hc

theorem verCh_hard (c : Char) (h : isVerCh c = true) : isSoft c = false := by
  have hsp := verCh_not_space c h
  simp only [isSoft, hsp, Bool.false_or, Bool.or_eq_false_iff, isParen, beq_eq_false_iff_ne]
  refine ⟨⟨?_, ?_⟩, ?_⟩ <;> (intro hc; subst hc; exact absurd h (by decide))

theorem op_text_hard (o : Op) : ∀ c ∈ o.text, isSoft c = false := by
  cases o <;> decide

theorem sp_no_comma (w : List Char) (h : allSp w = true) : ∀ c ∈ w, c ≠ ',' := by
  intro c hc hcc
  subst hcc
  exact absurd (List.all_eq_true.mp h _ hc) (by decide)

/-- the core of an admissible clause starts and ends with a hard character and has no comma -/
theorem core_shape (c : Clause) (h : c.ok = true) :
    (∃ a t, c.core = a :: t ∧ isSoft a = false) ∧ (∃ i l, c.core = i ++ [l] ∧ isSoft l = false)
    ∧ ∀ x ∈ c.core, x ≠ ',' := by
  obtain ⟨_, h2, _, hr⟩ := ok_parts c h
  have hv := run_verCh _ _ hr
  have hne := run_ne_nil _ hr
  obtain ⟨i, l, hil⟩ : ∃ i l, c.ver = i ++ [l] := by
    refine ⟨c.ver.dropLast, c.ver.getLast hne, ?_⟩
    exact (List.dropLast_concat_getLast hne).symm
  have hl : isSoft l = false := verCh_hard l (hv l (by simp [hil]))
  cases ho : c.op with
  | none =>
    simp only [Clause.core, ho]
    refine ⟨?_, ⟨i, l, hil, hl⟩, fun x hx => soft_comma x (verCh_hard x (hv x hx))⟩
    cases hver : c.ver with
    | nil => exact absurd hver hne
    | cons a t => exact ⟨a, t, rfl, verCh_hard a (hv a (by simp [hver]))⟩
  | some o =>
    simp only [Clause.core, ho]
    refine ⟨?_, ⟨o.text ++ c.w2 ++ i, l, by simp [hil], hl⟩, ?_⟩
    · cases hot : o.text with
      | nil => cases o <;> simp [Op.text] at hot
      | cons a t =>
        exact ⟨a, t ++ c.w2 ++ c.ver, by simp, op_text_hard o a (by simp [hot])⟩
    · intro x hx
      simp only [List.mem_append] at hx
      rcases hx with (hx | hx) | hx
      · exact soft_comma x (op_text_hard o x hx)
      · exact sp_no_comma _ h2 x hx
      · exact soft_comma x (verCh_hard x (hv x hx))

/-- `strip` of spaces, a hard-ended text, spaces -/
theorem strip_padded (a k z : List Char) (ha : allSp a = true) (hz : allSp z = true)
    (hh : ∃ x t, k = x :: t ∧ isSoft x = false) (hl : ∃ i l, k = i ++ [l] ∧ isSoft l = false) :
    GP.strip (a ++ k ++ z) = k := by
  obtain ⟨x, t, hk, hx⟩ := hh
  obtain ⟨i, l, hk', hl'⟩ := hl
  rw [strip_eq, List.append_assoc, ldrop_all isSp a _ ha]
  have : ldrop isSp (k ++ z) = k ++ z := by
    rw [hk]; simp [ldrop, soft_sp x hx]
  rw [this, hk', rdrop_hard isSp z i l (soft_sp l hl')]
  have : rdrop isSp z = [] := by
    unfold rdrop
    have := ldrop_all_nil isSp z.reverse (by simpa [allSp] using hz)
    simp only [ldrop] at this
    simp [this]
  simp [this]

/-- the text between the first core and the last core -/
def kernel : List Clause → List Char
  | [] => []
  | [c] => c.core
  | c :: d :: ds => c.core ++ c.w3 ++ ',' :: (d.lead ++ kernel (d :: ds))

def firstLead : List Clause → List Char
  | [] => []
  | c :: _ => c.lead

def lastW3 : List Clause → List Char
  | [] => []
  | [c] => c.w3
  | _ :: d :: ds => lastW3 (d :: ds)

theorem joinComma_kernel : ∀ cs : List Clause, cs ≠ [] →
    joinComma (cs.map Clause.text) = firstLead cs ++ kernel cs ++ lastW3 cs
  | [], h => absurd rfl h
  | [c], _ => by simp [joinComma, kernel, lastW3, firstLead, Clause.text_eq]
  | c :: d :: ds, _ => by
    have ih := joinComma_kernel (d :: ds) (by simp)
    simp only [List.map_cons, joinComma, kernel, lastW3, firstLead] at ih ⊢
    rw [ih, Clause.text_eq]
    simp [List.append_assoc]

theorem kernel_shape : ∀ cs : List Clause, cs ≠ [] → (∀ c ∈ cs, c.ok = true) →
    (∃ a t, kernel cs = a :: t ∧ isSoft a = false) ∧ (∃ i l, kernel cs = i ++ [l] ∧ isSoft l = false)
  | [], h, _ => absurd rfl h
  | [c], _, hok => by
    obtain ⟨h1, h2, _⟩ := core_shape c (hok c (by simp))
    exact ⟨h1, h2⟩
  | c :: d :: ds, _, hok => by
    obtain ⟨⟨a, t, hc, ha⟩, _, _⟩ := core_shape c (hok c (by simp))
    obtain ⟨_, ⟨i, l, hk, hl⟩⟩ := kernel_shape (d :: ds) (by simp)
      (fun x hx => hok x (List.mem_cons_of_mem _ hx))
    constructor
    · exact ⟨a, t ++ c.w3 ++ ',' :: (d.lead ++ kernel (d :: ds)), by simp [kernel, hc], ha⟩
    · exact ⟨c.core ++ c.w3 ++ ',' :: (d.lead ++ i), l, by simp [kernel, hk], hl⟩

theorem lastW3_sp : ∀ cs : List Clause, (∀ c ∈ cs, c.ok = true) → allSp (lastW3 cs) = true
  | [], _ => rfl
  | [c], hok => (ok_parts c (hok c (by simp))).2.2.1
  | _ :: d :: ds, hok => lastW3_sp (d :: ds) (fun x hx => hok x (List.mem_cons_of_mem _ hx))

theorem splitOn_append_comma (p t : List Char) (h : ∀ c ∈ p, c ≠ ',') :
    splitOn ',' (p ++ ',' :: t) = p :: splitOn ',' t := by
  induction p with
  | nil => simp [splitOn]
  | cons c r ih =>
    have hc : (c == ',') = false := by simpa using h c (by simp)
    simp [splitOn, hc, ih (fun d hd => h d (List.mem_cons_of_mem _ hd))]

theorem splitOn_no_comma (p : List Char) (h : ∀ c ∈ p, c ≠ ',') : splitOn ',' p = [p] := by
  induction p with
  | nil => rfl
  | cons c r ih =>
    have hc : (c == ',') = false := by simpa using h c (by simp)
    simp [splitOn, hc, ih (fun d hd => h d (List.mem_cons_of_mem _ hd))]

/-- splitting the kernel, padded with spaces, then stripping each piece, gives the cores -/
theorem split_kernel : ∀ (cs : List Clause) (a z : List Char), cs ≠ [] → (∀ c ∈ cs, c.ok = true) →
    allSp a = true → allSp z = true →
    (splitOn ',' (a ++ kernel cs ++ z)).map GP.strip = cs.map Clause.core
  | [], _, _, h, _, _, _ => absurd rfl h
  | [c], a, z, _, hok, ha, hz => by
    obtain ⟨h1, h2, h3⟩ := core_shape c (hok c (by simp))
    have hnc : ∀ x ∈ a ++ c.core ++ z, x ≠ ',' := by
      intro x hx
      simp only [List.mem_append] at hx
      rcases hx with (hx | hx) | hx
      · exact sp_no_comma a ha x hx
      · exact h3 x hx
      · exact sp_no_comma z hz x hx
    simp only [kernel, splitOn_no_comma _ hnc, List.map_cons, List.map_nil,
      strip_padded a c.core z ha hz h1 h2]
  | c :: d :: ds, a, z, _, hok, ha, hz => by
    obtain ⟨h1, h2, h3⟩ := core_shape c (hok c (by simp))
    have hw3 := (ok_parts c (hok c (by simp))).2.2.1
    have hnc : ∀ x ∈ a ++ c.core ++ c.w3, x ≠ ',' := by
      intro x hx
      simp only [List.mem_append] at hx
      rcases hx with (hx | hx) | hx
      · exact sp_no_comma a ha x hx
      · exact h3 x hx
      · exact sp_no_comma _ hw3 x hx
    have ih := split_kernel (d :: ds) d.lead z (by simp)
      (fun x hx => hok x (List.mem_cons_of_mem _ hx)) (lead_sp d (hok d (by simp))) hz
    have e : a ++ kernel (c :: d :: ds) ++ z
        = (a ++ c.core ++ c.w3) ++ ',' :: (d.lead ++ kernel (d :: ds) ++ z) := by
      simp [kernel, List.append_assoc]
    rw [e, splitOn_append_comma _ _ hnc, List.map_cons, ih,
      strip_padded a c.core c.w3 ha hw3 h1 h2]
    rfl

/-- **the splitting part of `from_string`**: every admissible spelling splits into the cores of
its clauses -/
theorem splitRequirements_render (pre lp : List Char) (cs : List Clause) (rp post : List Char)
    (hne : cs ≠ []) (hok : ∀ c ∈ cs, c.ok = true) (hpre : allSp pre = true)
    (hpost : allSp post = true) (hlp : lp.all isParen = true) (hrp : rp.all isParen = true) :
    splitRequirements (render pre lp cs rp post) = cs.map Clause.core := by
  obtain ⟨⟨x, t, hk, hx⟩, ⟨i, l, hk', hl⟩⟩ := kernel_shape cs hne hok
  have hlead : allSp (firstLead cs) = true := by
    cases cs with
    | nil => rfl
    | cons c r => exact lead_sp c (hok c (by simp))
  have hlast := lastW3_sp cs hok
  have htrimL := lead_trim pre lp _ hpre hlp hlead
  have htrimR := trail_trim _ rp post hpost hrp hlast
  have e : render pre lp cs rp post
      = (pre ++ lp ++ firstLead cs) ++ kernel cs ++ (lastW3 cs ++ rp ++ post) := by
    simp only [render, joinComma_kernel cs hne, List.append_assoc]
  generalize pre ++ lp ++ firstLead cs = A at e htrimL
  generalize lastW3 cs ++ rp ++ post = Z at e htrimR
  unfold splitRequirements
  rw [show (fun c : Char => c == '(' || c == ')') = isParen from rfl, e, strip_eq, stripSet_eq]
  -- left and right trimming never touch the kernel
  have s1 : ldrop isSp (A ++ kernel cs ++ Z) = ldrop isSp A ++ kernel cs ++ Z := by
    rw [List.append_assoc, hk, List.cons_append, ldrop_hard isSp A x _ (soft_sp x hx)]
    simp
  have s2 : rdrop isSp (ldrop isSp A ++ kernel cs ++ Z) = ldrop isSp A ++ kernel cs ++ rdrop isSp Z := by
    rw [hk', ← List.append_assoc (ldrop isSp A) i [l], rdrop_hard isSp Z _ l (soft_sp l hl)]
  have s3 : ldrop isParen (ldrop isSp A ++ kernel cs ++ rdrop isSp Z)
      = ldrop isParen (ldrop isSp A) ++ kernel cs ++ rdrop isSp Z := by
    rw [List.append_assoc, hk, List.cons_append, ldrop_hard isParen _ x _ (soft_paren x hx)]
    simp
  have s4 : rdrop isParen (ldrop isParen (ldrop isSp A) ++ kernel cs ++ rdrop isSp Z)
      = ldrop isParen (ldrop isSp A) ++ kernel cs ++ rdrop isParen (rdrop isSp Z) := by
    rw [hk', ← List.append_assoc (ldrop isParen (ldrop isSp A)) i [l],
      rdrop_hard isParen _ _ l (soft_paren l hl)]
  rw [s1, s2, s3, s4]
  exact split_kernel cs _ _ hne hok htrimL htrimR

/-! the regex part: each core parses to its clause -/

theorem ver_head (v : List Char) (h : run .d0 v = true) : ∃ d r, v = d :: r ∧ isDig d = true := by
  cases v with
  | nil => simp [run, accepting] at h
  | cons d r =>
    refine ⟨d, r, rfl, ?_⟩
    simp only [run, step] at h
    by_cases hd : isDig d = true
    · exact hd
    · simp [hd] at h

theorem dig_facts (d : Char) (h : isDig d = true) :
    isSp d = false ∧ d ≠ '=' ∧ d ≠ '!' ∧ d ≠ '>' ∧ d ≠ '<' ∧ d ≠ '~' := by
  refine ⟨?_, ?_, ?_, ?_, ?_, ?_⟩
  · exact alnum_not_space d (by simp [isAlnum, h])
  all_goals (intro hc; subst hc; exact absurd h (by decide))

theorem matchWith_core (o o' : Op) (w2 ver : List Char) (hw : allSp w2 = true)
    (hr : run .d0 ver = true) :
    matchWith (o.text ++ w2 ++ ver) o' = if o' = o then some ver else none := by
  obtain ⟨d, r, hv, hd⟩ := ver_head ver hr
  obtain ⟨hdsp, hd1, _⟩ := dig_facts d hd
  have hdrop : List.dropWhile isSp (w2 ++ ver) = ver := by
    have := ldrop_all isSp w2 ver hw
    simp only [ldrop] at this
    rw [this, hv]
    simp [hdsp]
  by_cases hoo : o' = o
  · subst hoo
    simp only [↓reduceIte]
    cases o' <;> simp [matchWith, Op.text, startsWith, List.isPrefixOf, hdrop, hr]
  · simp only [hoo, ↓reduceIte]
    obtain ⟨y, r', hy, hne⟩ : ∃ y r', w2 ++ ver = y :: r' ∧ y ≠ '=' := by
      cases w2 with
      | nil => exact ⟨d, r, by simp [hv], hd1⟩
      | cons s w =>
        refine ⟨s, w ++ ver, rfl, ?_⟩
        intro hs
        subst hs
        simp [allSp] at hw
        exact absurd hw.1 (by decide)
    have hne' : ¬ '=' = y := fun h => hne h.symm
    have e1 : isSp '=' = false := by decide
    have e2 : isDig '=' = false := by decide
    rw [List.append_assoc, hy]
    cases o <;> cases o' <;> first
      | exact absurd rfl hoo
      | simp [matchWith, Op.text, startsWith, List.isPrefixOf, hne', e1, e2, run, step]

theorem patternMatch_core (c : Clause) (h : c.ok = true) :
    patternMatch c.core = some (c.op, c.ver) := by
  obtain ⟨h1, h2, h3⟩ := core_shape c h
  obtain ⟨_, hw2, _, hr⟩ := ok_parts c h
  have hs : GP.strip c.core = c.core := by
    have := strip_padded [] c.core [] rfl rfl h1 h2
    simpa using this
  unfold patternMatch
  simp only [hs]
  cases ho : c.op with
  | some o =>
    have hm : ∀ o', matchWith c.core o' = if o' = o then some c.ver else none := by
      intro o'
      simp only [Clause.core, ho]
      exact matchWith_core o o' c.w2 c.ver hw2 hr
    cases o <;> simp [Op.all, List.findSome?, hm]
  | none =>
    obtain ⟨d, r, hv, hd⟩ := ver_head c.ver hr
    obtain ⟨_, d1, d2, d3, d4, d5⟩ := dig_facts d hd
    have hcore : c.core = c.ver := by simp [Clause.core, ho]
    have hm : ∀ o', matchWith c.ver o' = none := by
      intro o'
      rw [hv]
      cases o' <;> simp [matchWith, Op.text, startsWith, List.isPrefixOf, Ne.symm d1, Ne.symm d2,
        Ne.symm d3, Ne.symm d4, Ne.symm d5]
    rw [hcore]
    simp [Op.all, List.findSome?, hm, hr]

/-- **`gem_parse_exact`**: every admissible spelling of a clause (after the `strip` of
`from_string`) parses to the clause: the operator (default `=`) and the version text -/
theorem gem_parse_exact (c : Clause) (h : c.ok = true) : parse c.core = .ok c.gc := by
  obtain ⟨_, _, _, hr⟩ := ok_parts c h
  obtain ⟨hg, _⟩ := gemVersion_of_run c.ver hr
  unfold parse
  simp only [patternMatch_core c h, hg, liftV]
  split
  · rename_i hdef
    simp only [Bool.and_eq_true, beq_iff_eq] at hdef
    simp [Clause.gc, hdef.1, hdef.2, defaultConstraint]
  · cases ho : c.op <;> simp [Clause.gc, ho]

theorem parseAll_cores (cs : List Clause) (hok : ∀ c ∈ cs, c.ok = true) :
    parseAll (cs.map Clause.core) = .ok (cs.map Clause.gc) := by
  induction cs with
  | nil => rfl
  | cons c r ih =>
    simp [parseAll, gem_parse_exact c (hok c (by simp)),
      ih (fun d hd => hok d (List.mem_cons_of_mem _ hd))]

/-- **`gem_fromString_exact`** (C15): for every non-empty list of admissible clauses and every
spelling of it — white space around, any run of parentheses, white space around each clause and
between operator and version, `=` optional — `GemRequirement.from_string` yields exactly the
clauses, in order -/
theorem gem_fromString_exact (pre lp : List Char) (cs : List Clause) (rp post : List Char)
    (hne : cs ≠ []) (hok : ∀ c ∈ cs, c.ok = true) (hpre : allSp pre = true)
    (hpost : allSp post = true) (hlp : lp.all isParen = true) (hrp : rp.all isParen = true) :
    fromString (render pre lp cs rp post) = .ok (cs.map Clause.gc) := by
  unfold fromString init
  rw [splitRequirements_render pre lp cs rp post hne hok hpre hpost hlp hrp]
  have : (cs.map Clause.core).isEmpty = false := by
    cases cs with
    | nil => exact absurd rfl hne
    | cons _ _ => rfl
  simp only [this, Bool.false_eq_true, ↓reduceIte]
  exact parseAll_cores cs hok

/-- **`gem_native_exact`** (C06): on every admissible spelling `from_native` returns the textual
image of `sort_constraints` of the clauses with every `~>` replaced by its two bounds -/
theorem gem_native_exact (pre lp : List Char) (cs : List Clause) (rp post : List Char)
    (hne : cs ≠ []) (hok : ∀ c ∈ cs, c.ok = true) (hpre : allSp pre = true)
    (hpost : allSp post = true) (hlp : lp.all isParen = true) (hrp : rp.all isParen = true) :
    ∃ e, expandTildes (cs.map Clause.gc) = .ok e ∧
      fromNative (render pre lp cs rp post) = .ok ((sortConstraints e).filterMap
        (fun gc => gc.op.cmpr?.map (fun c => Con.mk c (Gem.str gc.version)))) := by
  have h1 := gem_fromString_exact pre lp cs rp post hne hok hpre hpost hlp hrp
  obtain ⟨hw, hne'⟩ := fromString_ok _ _ h1
  obtain ⟨e, he, hwe, hnt, hnn⟩ := expandTildes_ok _ hw
  refine ⟨e, he, ?_⟩
  have hs : simplify (cs.map Clause.gc) = .ok (sortConstraints e) := by
    simp [simplify, he, initGC, sortConstraints_ne_nil e (hnn hne')]
  simp only [fromNative, h1, hs]
  exact consOf_eq _ (fun y hy => hwe y (sortConstraints_subset e y hy))
    (fun y hy => hnt y (sortConstraints_subset e y hy))

example : (Clause.mk (some .ge) "1.0.1".toList [' '] [' ', '\t'] []).ok = true := by decide

end Exact

end Univers.Text.GemReq
