/-
Layer C — THEOREMS about the vers text model (`Univers/Text/Vers.lean`) against its spec
(`Univers/Text/VersSpec.lean`): registry tables (C05/C16), `split ∘ print` (C05), exactness of
`fromString` on every accepted spelling (C05, C13), the decoration theorems (C13) and the
declared-errors theorem (C16).
-/
import Univers.Text.VersSpec

namespace Univers.Text.Vers

open Univers.Text.Str

/-! ### tables -/

theorem comparatorTexts_eq :
    comparatorTexts = [['>', '='], ['<', '='], ['!', '='], ['<'], ['>'], ['='], ['*']] := by decide

/-- every `COMPARATORS` entry names an operator the model knows -/
theorem comparators_known : ∀ p ∈ Gen.comparators, (cmprOfName p.2).isSome = true := by decide

theorem lookupComparator_text (c : Cmpr) : lookupComparator c.text.toList = some (some c) := by
  cases c <;> decide

theorem lookupComparator_star : lookupComparator ['*'] = some none := by decide

/-- (a) every registry entry's class has that scheme name -/
theorem registry_sound : RegistrySound := by decide

/-- (a) every range class that declares a scheme is registered under it (FIXED CODE, fix:
`alpine` registered) -/
theorem registry_complete : RegistryComplete := by decide

/-- every registered range class has a version class: the `NoVersionClass` branch of
`headerCore` is dead -/
theorem registry_versionClass : ∀ p ∈ Gen.registry, (versionClassOf p.2).isSome = true := by decide

/-- the registered scheme names are lower case, without whitespace, `:` `/` or quote -/
theorem registry_keys_plain : ∀ p ∈ registryL,
    lower p.1 = p.1 ∧ p.1.all (fun c => !isSpace c && c != ':' && c != '/' && reprPlain c
      && c != '\'' && c != '"') = true := by decide +kernel

theorem lookup_some_mem {α β} [BEq α] [LawfulBEq α] {l : List (α × β)} {k : α} {v : β}
    (h : l.lookup k = some v) : (k, v) ∈ l := by
  induction l with
  | nil => simp [List.lookup] at h
  | cons p ps ih =>
    obtain ⟨a, b⟩ := p
    unfold List.lookup at h
    split at h
    · rename_i hk
      have : k = a := by simpa using hk
      subst this
      simp only [Option.some.injEq] at h
      subst h
      exact List.mem_cons_self
    · exact List.mem_cons_of_mem _ (ih h)

/-! ### (b) `split ∘ print` -/

theorem textSafe_cons {v : List Char} (h : TextSafe v) :
    ∃ x xs, v = x :: xs ∧ comparatorChars.contains x = false ∧
      (x :: xs).all (fun c => !isSpace c && c != '|') = true := by
  have h : textSafe v = true := h
  cases v with
  | nil => simp [textSafe] at h
  | cons x xs =>
    refine ⟨x, xs, rfl, ?_, ?_⟩
    · simp only [textSafe] at h; revert h; cases comparatorChars.contains x <;> simp
    · simp only [textSafe, Bool.and_eq_true] at h; exact h.1.2

theorem textSafe_noSpace {v : List Char} (h : TextSafe v) :
    v.all (fun c => !isSpace c) = true := by
  obtain ⟨x, xs, rfl, _, h2⟩ := textSafe_cons h
  rw [List.all_eq_true] at h2 ⊢
  intro c hc; have := h2 c hc; simp only [Bool.and_eq_true] at this; exact this.1

theorem textSafe_noBar {v : List Char} (h : TextSafe v) : '|' ∉ v := by
  obtain ⟨x, xs, rfl, _, h2⟩ := textSafe_cons h
  rw [List.all_eq_true] at h2
  intro hc; have := h2 _ hc; simp at this

theorem cmprText_noSpace (c : Cmpr) : c.text.toList.all (fun c => !isSpace c) = true := by
  cases c <;> decide

theorem explicit_noSpace (c : Cmpr) {v : List Char} (h : TextSafe v) :
    (c.text.toList ++ v).all (fun c => !isSpace c) = true := by
  rw [List.all_append, cmprText_noSpace, textSafe_noSpace h]; rfl

/-- `split` on text without whitespace that does not start with the star -/
theorem split_eq_loop {s : List Char} (hs : s.all (fun c => !isSpace c) = true)
    (h : startsWith s ['*'] = false) : split s = splitLoop comparatorTexts s := by
  simp [split, removeSpaces_of_noSpace hs, h]

theorem textSafe_head_ne {x : Char} (hx : comparatorChars.contains x = false) :
    x ≠ '<' ∧ x ≠ '>' ∧ x ≠ '=' ∧ x ≠ '!' ∧ x ≠ '*' := by
  simp [comparatorChars] at hx
  refine ⟨?_, ?_, ?_, ?_, ?_⟩ <;> (intro e; subst e; simp at hx)

/-- a comparator written in full (also `=`) in front of a safe version text -/
theorem split_explicit (c : Cmpr) {v : List Char} (h : TextSafe v) :
    split (c.text.toList ++ v) = (c.text.toList, v) := by
  have hns := explicit_noSpace c h
  obtain ⟨x, xs, rfl, hx, _⟩ := textSafe_cons h
  obtain ⟨h1, h2, h3, h4, h5⟩ := textSafe_head_ne hx
  have ne (a : Char) (hne : x ≠ a) : (a == x) = false := by
    simp only [beq_eq_false_iff_ne, ne_eq]; exact fun e => hne e.symm
  rw [split_eq_loop hns]
  · cases c <;>
      simp [Cmpr.text, comparatorTexts_eq, splitLoop, startsWith_cons_cons,
        lstripSet, ne, h1, h2, h3, h4]
  · cases c <;> simp [Cmpr.text, startsWith_cons_cons]

/-- a safe version text alone reads as `=` -/
theorem split_bare {v : List Char} (h : TextSafe v) : split v = (['='], v) := by
  have hns := textSafe_noSpace h
  obtain ⟨x, xs, rfl, hx, _⟩ := textSafe_cons h
  obtain ⟨h1, h2, h3, h4, h5⟩ := textSafe_head_ne hx
  have ne (a : Char) (hne : x ≠ a) : (a == x) = false := by
    simp only [beq_eq_false_iff_ne, ne_eq]; exact fun e => hne e.symm
  rw [split_eq_loop hns]
  · simp [comparatorTexts_eq, splitLoop, startsWith_cons_cons, ne, h1, h2, h3, h4, h5]
  · simp [startsWith_cons_cons, ne, h5]

/-- (b) for a comparator `c` and a safe version text `v`, `split (print c v) = (c, v)`
(`print` omits `=`) -/
theorem split_of_print (c : Cmpr) {v : List Char} (h : TextSafe v) :
    split (print c v) = (c.text.toList, v) := by
  cases c
  case eq => exact split_bare h
  all_goals exact split_explicit _ h

/-! ### one constraint -/

theorem textSafe_ne_nil {v : List Char} (h : TextSafe v) : v.isEmpty = false := by
  obtain ⟨x, xs, rfl, _, _⟩ := textSafe_cons h; rfl

/-- every spelling of an acceptable constraint is read back as that constraint -/
theorem conFromString_spelling {mk : List Char → Except TErr (List Char)} {c : TCon}
    {t : List Char} (hs : ConSpelling c t) (hok : ConOk mk c) (ha : isAsciiRepr t = true) :
    conFromString mk t = .ok c := by
  cases hs with
  | star => rfl
  | bare v =>
    obtain ⟨hv, hm⟩ := hok
    have h1 : lookupComparator ['='] = some (some .eq) := by decide
    simp [conFromString, removeSpaces_of_noSpace (textSafe_noSpace hv), ha, split_bare hv,
      h1, textSafe_ne_nil hv, hm]
  | explicit k v =>
    obtain ⟨hv, hm⟩ := hok
    simp [conFromString, removeSpaces_of_noSpace (explicit_noSpace k hv), ha,
      split_explicit k hv, lookupComparator_text, textSafe_ne_nil hv, hm]

/-- what every spelling of an acceptable constraint looks like -/
theorem spelling_props {mk : List Char → Except TErr (List Char)} {c : TCon} {t : List Char}
    (hs : ConSpelling c t) (hok : ConOk mk c) :
    t ≠ [] ∧ '|' ∉ t ∧ t.all (fun c => !isSpace c) = true ∧
      (c.isStar = false → ∃ x xs, t = x :: xs ∧ x ≠ '*') := by
  cases hs with
  | star => exact ⟨by simp, by decide, by decide, by simp [Con.isStar]⟩
  | bare v =>
    obtain ⟨hv, _⟩ := hok
    obtain ⟨x, xs, rfl, hx, _⟩ := textSafe_cons hv
    exact ⟨by simp, textSafe_noBar hv, textSafe_noSpace hv,
      fun _ => ⟨x, xs, rfl, (textSafe_head_ne hx).2.2.2.2⟩⟩
  | explicit k v =>
    obtain ⟨hv, _⟩ := hok
    refine ⟨?_, ?_, explicit_noSpace k hv, fun _ => ?_⟩
    · cases k <;> simp [Cmpr.text]
    · have := textSafe_noBar hv
      cases k <;> simp [Cmpr.text, this]
    · cases k <;> simp [Cmpr.text]

/-! ### the loop -/

theorem conLoop_spelled {mk : List Char → Except TErr (List Char)} {items : List TCon}
    {texts : List (List Char)} (hs : Spelled items texts) (hok : ∀ c ∈ items, ConOk mk c)
    (hns : items.all (fun c => !c.isStar) = true)
    (ha : ∀ t ∈ texts, isAsciiRepr t = true) : conLoop mk texts = .ok items := by
  induction hs with
  | nil => rfl
  | @cons c t cs ts h1 _ ih =>
    have hc : c.isStar = false := by
      have := (List.all_eq_true.mp hns) c List.mem_cons_self
      simpa using this
    have hns' : cs.all (fun c => !c.isStar) = true := by
      rw [List.all_eq_true] at hns ⊢
      exact fun d hd => hns d (List.mem_cons_of_mem _ hd)
    simp only [conLoop,
      conFromString_spelling h1 (hok _ List.mem_cons_self) (ha _ List.mem_cons_self), hc,
      ih (fun c hc => hok c (List.mem_cons_of_mem _ hc)) hns'
         (fun t ht => ha t (List.mem_cons_of_mem _ ht))]
    rfl

theorem spelled_props {mk : List Char → Except TErr (List Char)} {items : List TCon}
    {texts : List (List Char)} (hs : Spelled items texts) (hok : ∀ c ∈ items, ConOk mk c) :
    ∀ t ∈ texts, t ≠ [] ∧ '|' ∉ t ∧ t.all (fun c => !isSpace c) = true := by
  induction hs with
  | nil => intro t ht; cases ht
  | cons h1 _ ih =>
    intro t ht
    rcases List.mem_cons.mp ht with e | e
    · subst e
      have := spelling_props h1 (hok _ List.mem_cons_self)
      exact ⟨this.1, this.2.1, this.2.2.1⟩
    · exact ih (fun c hc => hok c (List.mem_cons_of_mem _ hc)) t e

theorem spelled_ne_nil {items : List TCon} {texts : List (List Char)} (hs : Spelled items texts)
    (hne : items ≠ []) : texts ≠ [] := by
  cases hs with
  | nil => exact absurd rfl hne
  | cons _ _ => simp

/-! ### the list of constraint texts -/

theorem bars_contains (n : Nat) : ∀ c ∈ bars n, ['|'].contains c = true := by
  intro c hc
  have := List.eq_of_mem_replicate hc
  subst this; rfl

theorem bars_noSpace (n : Nat) : (bars n).all (fun c => !isSpace c) = true := by
  rw [List.all_eq_true]; intro c hc
  have := List.eq_of_mem_replicate hc
  subst this; decide

theorem join_noSpace {texts : List (List Char)}
    (h : ∀ t ∈ texts, t.all (fun c => !isSpace c) = true) :
    (join ['|'] texts).all (fun c => !isSpace c) = true := by
  rw [List.all_eq_true]; intro c hc
  rcases mem_join hc with h1 | ⟨p, hp, hcp⟩
  · have : c = '|' := by simpa using h1
    subst this; decide
  · exact (List.all_eq_true.mp (h p hp)) c hcp

/-- the text `|…|t1|t2|…|tn|…|` whose first item does not start with the star is cut into
`t1 … tn` -/
theorem constraintBody_texts {texts : List (List Char)} (n m : Nat) (hne : texts ≠ [])
    (h : ∀ t ∈ texts, t ≠ [] ∧ '|' ∉ t ∧ t.all (fun c => !isSpace c) = true)
    (hstar : startsWith (join ['|'] texts) ['*'] = false) :
    constraintBody (bars n ++ join ['|'] texts ++ bars m) = .ok (.texts texts) := by
  have hns : (bars n ++ join ['|'] texts ++ bars m).all (fun c => !isSpace c) = true := by
    rw [List.all_append, List.all_append, bars_noSpace, bars_noSpace,
      join_noSpace (fun t ht => (h t ht).2.2)]; rfl
  obtain ⟨t1, ts, rfl⟩ := List.exists_cons_of_ne_nil hne
  obtain ⟨x, xs, hx⟩ := List.exists_cons_of_ne_nil (h t1 List.mem_cons_self).1
  have hxbar : x ≠ '|' := by
    intro e; exact (h t1 List.mem_cons_self).2.1 (by rw [hx, e]; exact List.mem_cons_self)
  obtain ⟨rest, hrest⟩ := join_cons_cons ['|'] x xs ts
  obtain ⟨init, y, hlast, p, hp, hy⟩ :=
    join_eq_concat (sep := ['|']) hne (fun t ht => (h t ht).1)
  have hybar : y ≠ '|' := by intro e; exact (h p hp).2.1 (e ▸ hy)
  have hJne : join ['|'] (t1 :: ts) ≠ [] := by rw [hx, hrest]; simp
  have hstrip : stripSet ['|'] (join ['|'] (t1 :: ts)) = join ['|'] (t1 :: ts) := by
    apply stripSet_of_ends hJne
    · have : (join ['|'] (t1 :: ts)).head hJne = x := by simp [hx, hrest]
      rw [this]; simpa using hxbar
    · have : (join ['|'] (t1 :: ts)).getLast hJne = y := by simp [hlast]
      rw [this]; simpa using hybar
  have hnil : (join ['|'] (t1 :: ts)).isEmpty = false := by rw [hx, hrest]; rfl
  unfold constraintBody
  simp only [removeSpaces_of_noSpace hns, stripSet_pad _ (bars_contains n) (bars_contains m),
    hstrip, hnil, hstar, Bool.false_eq_true, ↓reduceIte,
    splitChar_join hne (fun t ht => (h t ht).2.1)]

/-- the lone star with stray bars -/
theorem constraintBody_star (n m : Nat) :
    constraintBody (bars n ++ ['*'] ++ bars m) = .ok .star := by
  have hns : (bars n ++ ['*'] ++ bars m).all (fun c => !isSpace c) = true := by
    rw [List.all_append, List.all_append, bars_noSpace, bars_noSpace]; rfl
  unfold constraintBody
  simp only [removeSpaces_of_noSpace hns, stripSet_pad _ (bars_contains n) (bars_contains m)]
  rfl

/-! ### the header -/

/-- the first test of `from_string` is "`remove_spaces(vers)` is empty" -/
theorem header_eq (t : List Char) :
    header t = if (removeSpaces t).isEmpty then .error .ValueError
      else headerCore (removeSpaces t) := by
  unfold header
  cases t with
  | nil => simp
  | cons c cs =>
    have h := stripWs_eq_nil_iff (c :: cs)
    by_cases hr : removeSpaces (c :: cs) = []
    · simp [h.mpr hr, hr]
    · have : stripWs (c :: cs) ≠ [] := fun e => hr (h.mp e)
      simp [this, hr]

/-- the header of a text `uri:scheme/constraints` -/
theorem headerCore_shape {u s : List Char} (c : List Char) (hu : ':' ∉ u) (hs : '/' ∉ s) :
    headerCore (u ++ ':' :: (s ++ '/' :: c)) =
      if !isAsciiRepr (u ++ ':' :: (s ++ '/' :: c)) then .error .ValueError
      else if lower u != ['v', 'e', 'r', 's'] then .error .ValueError
      else
        match registryL.lookup (lower s) with
        | none => .error .ValueError
        | some cls =>
            match versionClassOf cls with
            | none => .error (.other "NoVersionClass")
            | some vc => .ok (lower s, vc, c) := by
  simp only [headerCore, partitionChar_append _ hu, partitionChar_append _ hs]
  rfl

theorem not_mem_of_lower {d : Char} (hd : lowerChar d = d)
    {u : List Char} (h : d ∉ lower u) : d ∉ u := by
  intro hm; apply h
  rw [lower, List.mem_map]
  exact ⟨d, hm, hd⟩

theorem not_mem_lower {d : Char} (hd : lowerChar d = d) (hup : upperChar d = d)
    {u : List Char} (h : d ∉ u) : d ∉ lower u := by
  intro hm
  rw [lower, List.mem_map] at hm
  obtain ⟨c, hc, e⟩ := hm
  exact h ((lowerChar_eq_of_not_letter hd hup e) ▸ hc)

/-! ### exactness: every accepted spelling is read as the expression (C05, C13) -/

theorem spelled_star {texts : List (List Char)} (h : Spelled [.star] texts) :
    texts = [['*']] := by
  cases h with
  | cons h1 h2 => cases h1; cases h2; rfl

theorem registered_plain {scheme : List Char} {vc : String} (h : Registered scheme vc) :
    lower scheme = scheme ∧ scheme.all (fun c => !isSpace c && c != ':' && c != '/' &&
      reprPlain c && c != '\'' && c != '"') = true := by
  obtain ⟨cls, h1, _⟩ := h
  exact registry_keys_plain _ (lookup_some_mem h1)

theorem registered_noSlash {scheme : List Char} {vc : String} (h : Registered scheme vc) :
    '/' ∉ scheme := by
  intro hm
  have := (List.all_eq_true.mp (registered_plain h).2) _ hm
  simp at this

/-- the body of a spelling is read as the items -/
theorem parseConstraints_spelled {mk : List Char → Except TErr (List Char)} {items : List TCon}
    {texts : List (List Char)} (n m : Nat) (hsp : Spelled items texts) (hne : items ≠ [])
    (hstar : StarAlone items) (hok : ∀ c ∈ items, ConOk mk c)
    (ha : ∀ t ∈ texts, isAsciiRepr t = true) :
    parseConstraints mk (bars n ++ join ['|'] texts ++ bars m) = .ok items := by
  rcases hstar with hs | hs
  · -- the lone star
    subst hs
    rw [spelled_star hsp]
    simp only [parseConstraints, join, constraintBody_star]
    rfl
  · -- no star: the first text does not start with `*`
    have hprops := spelled_props hsp hok
    have htne := spelled_ne_nil hsp hne
    have hhead : startsWith (join ['|'] texts) ['*'] = false := by
      cases hsp with
      | nil => exact absurd rfl hne
      | @cons c t cs ts h1 h2 =>
        have hc : c.isStar = false := by
          have := (List.all_eq_true.mp hs) c List.mem_cons_self
          simpa using this
        obtain ⟨x, xs, hx, hxs⟩ := (spelling_props h1 (hok _ List.mem_cons_self)).2.2.2 hc
        subst hx
        obtain ⟨rest, hrest⟩ := join_cons_cons ['|'] x xs ts
        have : ('*' == x) = false := by
          simp only [beq_eq_false_iff_ne, ne_eq]; exact fun e => hxs e.symm
        simp [hrest, startsWith_cons_cons, this]
    simp only [parseConstraints, constraintBody_texts n m htne hprops hhead,
      conLoop_spelled hsp hok hs ha]

/-- (c)+(d) EXACTNESS: for a registered scheme, a non-empty list of acceptable constraints
that is a lone star or has no star, every spelling `t` of the expression (whitespace anywhere,
any case of `vers` and of the scheme, stray bars, `=` written or not) that passes the ASCII
test is read back as exactly that expression. -/
theorem fromString_exact (mkVer : MkVer) (e : Expr) (vc : String) (t : List Char)
    (hreg : Registered e.scheme vc) (hne : e.items ≠ []) (hstar : StarAlone e.items)
    (hok : ∀ c ∈ e.items, ConOk (mkVer vc) c) (hr : Renders e t)
    (ha : isAsciiRepr (removeSpaces t) = true) :
    fromString mkVer t = .ok (e.scheme, constraintsOf e) := by
  obtain ⟨u, s, texts, n, m, hu, hs, hsp, heq⟩ := hr
  have heq' : removeSpaces t = u ++ ':' :: (s ++ '/' :: (bars n ++ join ['|'] texts ++ bars m)) := by
    rw [heq]; simp [List.append_assoc]
  have hcolon : ':' ∉ u := not_mem_of_lower (by decide) (by rw [hu]; decide)
  have hslash : '/' ∉ s :=
    not_mem_of_lower (by decide) (by rw [hs]; exact registered_noSlash hreg)
  obtain ⟨cls, hl, hv⟩ := hreg
  have hhead : header t = .ok (e.scheme, vc, bars n ++ join ['|'] texts ++ bars m) := by
    rw [header_eq, heq', headerCore_shape _ hcolon hslash, ← heq', ha, hu, hs, hl]
    simp [heq', hv]
  have hascii : ∀ p ∈ texts, isAsciiRepr p = true := by
    intro p hp
    refine isAsciiRepr_of_subset (fun c hc => ?_) ha
    rw [heq']
    have := mem_join_of_mem (sep := ['|']) hp hc
    simp [this]
  have hparse := parseConstraints_spelled (mk := mkVer vc) n m hsp hne hstar hok hascii
  simp only [fromString, fromStringItems, hhead, hparse, constraintsOf]

/-- (C13) two spellings of one expression are read the same: the result does not depend on
the presentation -/
theorem fromString_presentation_independent (mkVer : MkVer) (e : Expr) (vc : String)
    (t t' : List Char) (hreg : Registered e.scheme vc) (hne : e.items ≠ [])
    (hstar : StarAlone e.items) (hok : ∀ c ∈ e.items, ConOk (mkVer vc) c)
    (hr : Renders e t) (hr' : Renders e t')
    (ha : isAsciiRepr (removeSpaces t) = true) (ha' : isAsciiRepr (removeSpaces t') = true) :
    fromString mkVer t = fromString mkVer t' := by
  rw [fromString_exact mkVer e vc t hreg hne hstar hok hr ha,
    fromString_exact mkVer e vc t' hreg hne hstar hok hr' ha']

/-- (C05, C13) reading any spelling and printing gives the canonical text -/
theorem toString_fromString_canonical (mkVer : MkVer) (e : Expr) (vc : String) (t : List Char)
    (hreg : Registered e.scheme vc) (hne : e.items ≠ []) (hstar : StarAlone e.items)
    (hok : ∀ c ∈ e.items, ConOk (mkVer vc) c) (hr : Renders e t)
    (ha : isAsciiRepr (removeSpaces t) = true) :
    (fromString mkVer t).map (fun r => toString r.1 r.2) = .ok (toString e.scheme e.items) := by
  rw [fromString_exact mkVer e vc t hreg hne hstar hok hr ha]; rfl

/-! ### (c) printing then parsing -/

theorem conSpelling_conStr (c : TCon) : ConSpelling c (conStr c) := by
  cases c with
  | star => exact .star
  | mk k v => cases k <;> first | exact .bare v | exact .explicit _ v

theorem spelled_map_conStr (items : List TCon) : Spelled items (items.map conStr) := by
  induction items with
  | nil => exact .nil
  | cons c cs ih => exact .cons (conSpelling_conStr c) ih

/-- the canonical text is one of the spellings -/
theorem renders_toString {mk : List Char → Except TErr (List Char)} {scheme : List Char}
    {vc : String} {items : List TCon} (hreg : Registered scheme vc)
    (hok : ∀ c ∈ items, ConOk mk c) : Renders ⟨scheme, items⟩ (toString scheme items) := by
  refine ⟨['v', 'e', 'r', 's'], scheme, items.map conStr, 0, 0, rfl, (registered_plain hreg).1,
    spelled_map_conStr items, ?_⟩
  have hs : scheme.all (fun c => !isSpace c) = true := by
    rw [List.all_eq_true]; intro c hc
    have := (List.all_eq_true.mp (registered_plain hreg).2) c hc
    simp only [Bool.and_eq_true] at this
    exact this.1.1.1.1.1
  have hj := join_noSpace (spelled_props (spelled_map_conStr items) hok |> fun h t ht => (h t ht).2.2)
  have : (toString scheme items).all (fun c => !isSpace c) = true := by
    simp only [toString, List.all_append, hs, hj]; rfl
  rw [removeSpaces_of_noSpace this]
  simp [toString, bars]

/-- (c) `fromString (toString scheme items) = (scheme, items)`: for a registered scheme and a
non-empty list (a lone star, or constraints without star) whose version texts are safe and
canonical for the version class, provided the printed text passes the ASCII test -/
theorem fromString_toString (mkVer : MkVer) (scheme : List Char) (vc : String)
    (items : List TCon) (hreg : Registered scheme vc) (hne : items ≠ [])
    (hstar : StarAlone items) (hok : ∀ c ∈ items, ConOk (mkVer vc) c)
    (ha : isAsciiRepr (toString scheme items) = true) :
    fromString mkVer (toString scheme items) = .ok (scheme, items) := by
  have hr := renders_toString hreg hok
  have hns : removeSpaces (toString scheme items) = toString scheme items := by
    have := noSpace_removeSpaces (toString scheme items)
    -- the canonical text has no whitespace: shown inside `renders_toString`; recover it here
    have hs : scheme.all (fun c => !isSpace c) = true := by
      rw [List.all_eq_true]; intro c hc
      have := (List.all_eq_true.mp (registered_plain hreg).2) c hc
      simp only [Bool.and_eq_true] at this
      exact this.1.1.1.1.1
    have hj := join_noSpace
      (spelled_props (spelled_map_conStr items) hok |> fun h t ht => (h t ht).2.2)
    exact removeSpaces_of_noSpace (by simp only [toString, List.all_append, hs, hj]; rfl)
  exact fromString_exact mkVer ⟨scheme, items⟩ vc _ hreg hne hstar hok hr (by rw [hns]; exact ha)

/-- the lone star: `vers:<scheme>/*` reads as `[*]` -/
theorem fromString_toString_star (mkVer : MkVer) (scheme : List Char) (vc : String)
    (hreg : Registered scheme vc) :
    fromString mkVer (toString scheme [.star]) = .ok (scheme, [.star]) := by
  apply fromString_toString mkVer scheme vc [.star] hreg (by simp) (.inl rfl)
  · intro c hc
    have : c = .star := by simpa using hc
    subst this; trivial
  · have h := (registered_plain hreg).2
    rw [isAsciiRepr_iff]
    have hmem : ∀ c ∈ toString scheme [.star], c ∈ ['v', 'e', 'r', 's', ':', '/', '*'] ∨ c ∈ scheme := by
      intro c hc
      simp only [toString, List.map, join, conStr, List.mem_append, List.mem_cons, List.not_mem_nil, or_false] at hc ⊢
      rcases hc with ((hc | hc) | hc) | hc
      · rcases hc with hc | hc | hc | hc | hc <;> simp [hc]
      · exact .inr hc
      · simp [hc]
      · simp [hc]
    constructor
    · intro c hc
      rcases hmem c hc with h1 | h1
      · exact (by decide : ∀ c ∈ ['v', 'e', 'r', 's', ':', '/', '*'], reprPlain c = true) c h1
      · have := (List.all_eq_true.mp h) c h1
        simp only [Bool.and_eq_true] at this; exact this.1.1.2
    · rintro ⟨h1, _⟩
      rcases hmem _ h1 with h2 | h2
      · exact absurd h2 (by decide)
      · have := (List.all_eq_true.mp h) _ h2
        simp at this

/-! ### (d) decorations (C13: the result does not depend on the presentation) -/

/-- (d1) WHITESPACE anywhere: the result only depends on the text without its whitespace -/
theorem fromStringItems_spaces (mkVer : MkVer) {t t' : List Char}
    (h : removeSpaces t = removeSpaces t') : fromStringItems mkVer t = fromStringItems mkVer t' := by
  simp only [fromStringItems, header_eq, h]

theorem fromString_spaces (mkVer : MkVer) {t t' : List Char}
    (h : removeSpaces t = removeSpaces t') : fromString mkVer t = fromString mkVer t' := by
  simp only [fromString, fromStringItems_spaces mkVer h]

/-- (d1) in particular the canonical whitespace-free text gives the same result -/
theorem fromString_removeSpaces (mkVer : MkVer) (t : List Char) :
    fromString mkVer (removeSpaces t) = fromString mkVer t :=
  fromString_spaces mkVer (removeSpaces_idem t)

theorem removeSpaces_shape (u s c : List Char) :
    removeSpaces (u ++ ':' :: (s ++ '/' :: c)) =
      removeSpaces u ++ ':' :: (removeSpaces s ++ '/' :: removeSpaces c) := by
  rw [removeSpaces_append, removeSpaces_cons, removeSpaces_append, removeSpaces_cons]
  have h1 : isSpace ':' = false := by decide
  have h2 : isSpace '/' = false := by decide
  simp [h1, h2]

theorem not_mem_removeSpaces {d : Char} {u : List Char} (h : d ∉ u) : d ∉ removeSpaces u :=
  fun hm => h (mem_removeSpaces.mp hm).1

/-- the header of a text `uri:scheme/constraints`, whitespace included -/
theorem header_shape {u s : List Char} (c : List Char) (hu : ':' ∉ u) (hs : '/' ∉ s) :
    header (u ++ ':' :: (s ++ '/' :: c)) =
      if !isAsciiRepr (removeSpaces (u ++ ':' :: (s ++ '/' :: c))) then .error .ValueError
      else if lower (removeSpaces u) != ['v', 'e', 'r', 's'] then .error .ValueError
      else
        match registryL.lookup (lower (removeSpaces s)) with
        | none => .error .ValueError
        | some cls =>
            match versionClassOf cls with
            | none => .error (.other "NoVersionClass")
            | some vc => .ok (lower (removeSpaces s), vc, removeSpaces c) := by
  rw [header_eq]
  have hne : (removeSpaces (u ++ ':' :: (s ++ '/' :: c))).isEmpty = false := by
    rw [removeSpaces_shape]; simp
  rw [hne]
  simp only [Bool.false_eq_true, ↓reduceIte]
  rw [removeSpaces_shape,
    headerCore_shape _ (not_mem_removeSpaces hu) (not_mem_removeSpaces hs)]

/-- (d2) CASE of `vers` and of the scheme: any casing gives the result of the lower-cased text -/
theorem fromString_case (mkVer : MkVer) (u s c : List Char) (hu : ':' ∉ u) (hs : '/' ∉ s) :
    fromString mkVer (u ++ ':' :: (s ++ '/' :: c)) =
      fromString mkVer (lower u ++ ':' :: (lower s ++ '/' :: c)) := by
  have hu' : ':' ∉ lower u := not_mem_lower (by decide) (by decide) hu
  have hs' : '/' ∉ lower s := not_mem_lower (by decide) (by decide) hs
  have hhead : header (u ++ ':' :: (s ++ '/' :: c)) =
      header (lower u ++ ':' :: (lower s ++ '/' :: c)) := by
    rw [header_shape _ hu hs, header_shape _ hu' hs', removeSpaces_shape, removeSpaces_shape,
      removeSpaces_lower, removeSpaces_lower, lower_idem, lower_idem]
    have e1 : isAsciiRepr (lower (removeSpaces u) ++ ':' :: (lower (removeSpaces s) ++ '/' :: removeSpaces c))
        = isAsciiRepr (removeSpaces u ++ ':' :: (removeSpaces s ++ '/' :: removeSpaces c)) := by
      have a := isAsciiRepr_lower_mid [] (removeSpaces u)
        (':' :: (lower (removeSpaces s) ++ '/' :: removeSpaces c))
      have b := isAsciiRepr_lower_mid (removeSpaces u ++ [':']) (removeSpaces s)
        ('/' :: removeSpaces c)
      simp only [List.nil_append, List.append_assoc, List.cons_append] at a b
      rw [a, b]
    rw [e1]
  simp only [fromString, fromStringItems, hhead]

/-- (d2) two casings of the same text give the same result -/
theorem fromString_case_eq (mkVer : MkVer) {u u' s s' : List Char} (c : List Char)
    (hu : ':' ∉ u) (hu' : ':' ∉ u') (hs : '/' ∉ s) (hs' : '/' ∉ s')
    (eu : lower u = lower u') (es : lower s = lower s') :
    fromString mkVer (u ++ ':' :: (s ++ '/' :: c)) =
      fromString mkVer (u' ++ ':' :: (s' ++ '/' :: c)) := by
  rw [fromString_case mkVer u s c hu hs, fromString_case mkVer u' s' c hu' hs', eu, es]

theorem removeSpaces_bars (n : Nat) : removeSpaces (bars n) = bars n :=
  removeSpaces_of_noSpace (bars_noSpace n)

/-- stray bars around the text of the constraints never matter -/
theorem constraintBody_bars (c : List Char) (n m : Nat) :
    constraintBody (bars n ++ c ++ bars m) = constraintBody c := by
  have e : removeSpaces (bars n ++ c ++ bars m) = bars n ++ removeSpaces c ++ bars m := by
    rw [removeSpaces_append, removeSpaces_append, removeSpaces_bars, removeSpaces_bars]
  unfold constraintBody
  simp only [e, stripSet_pad _ (bars_contains n) (bars_contains m)]

theorem bars_plain (n : Nat) : ∀ c ∈ bars n, reprPlain c = true ∧ c ≠ '\'' ∧ c ≠ '"' := by
  intro c hc
  have := List.eq_of_mem_replicate hc
  subst this; decide

/-- (d3) STRAY BARS before and after the constraints never matter (FIXED CODE: also around
the star) -/
theorem fromString_bars (mkVer : MkVer) (u s c : List Char) (n m : Nat) (hu : ':' ∉ u)
    (hs : '/' ∉ s) :
    fromString mkVer (u ++ ':' :: (s ++ '/' :: (bars n ++ c ++ bars m))) =
      fromString mkVer (u ++ ':' :: (s ++ '/' :: c)) := by
  have hitems : fromStringItems mkVer (u ++ ':' :: (s ++ '/' :: (bars n ++ c ++ bars m))) =
      fromStringItems mkVer (u ++ ':' :: (s ++ '/' :: c)) := by
    unfold fromStringItems
    rw [header_shape _ hu hs, header_shape _ hu hs, removeSpaces_shape, removeSpaces_shape]
    have e : removeSpaces (bars n ++ c ++ bars m) = bars n ++ removeSpaces c ++ bars m := by
      rw [removeSpaces_append, removeSpaces_append, removeSpaces_bars, removeSpaces_bars]
    have ea : isAsciiRepr (removeSpaces u ++ ':' :: (removeSpaces s ++ '/' :: (bars n ++ removeSpaces c ++ bars m)))
        = isAsciiRepr (removeSpaces u ++ ':' :: (removeSpaces s ++ '/' :: removeSpaces c)) := by
      have := isAsciiRepr_pad (x := removeSpaces u ++ ':' :: (removeSpaces s ++ ['/']))
        (a := removeSpaces c) (y := []) (bars n) (bars m) (bars_plain n) (bars_plain m)
      simpa [List.append_assoc] using this
    rw [e, ea]
    have ep : ∀ mk, parseConstraints mk (bars n ++ removeSpaces c ++ bars m) =
        parseConstraints mk (removeSpaces c) := by
      intro mk
      unfold parseConstraints
      rw [constraintBody_bars _ n m]
    by_cases hA : isAsciiRepr
        (removeSpaces u ++ ':' :: (removeSpaces s ++ '/' :: removeSpaces c)) = true
    · by_cases hU : lower (removeSpaces u) = ['v', 'e', 'r', 's']
      · cases hl : registryL.lookup (lower (removeSpaces s)) with
        | none => simp only [hA, hU, Bool.not_true, Bool.false_eq_true, ↓reduceIte, bne_self_eq_false]
        | some cls =>
          cases hv : versionClassOf cls with
          | none => simp only [hA, hU, hv, Bool.not_true, Bool.false_eq_true, ↓reduceIte, bne_self_eq_false]
          | some vc => simp only [hA, hU, hv, ep, Bool.not_true, Bool.false_eq_true, ↓reduceIte, bne_self_eq_false]
      · have hU' : (lower (removeSpaces u) != ['v', 'e', 'r', 's']) = true := by simpa using hU
        simp only [hA, hU', Bool.not_true, Bool.false_eq_true, ↓reduceIte]
    · have hA' : isAsciiRepr
          (removeSpaces u ++ ':' :: (removeSpaces s ++ '/' :: removeSpaces c)) = false := by
        simpa using hA
      simp only [hA', Bool.not_false, ↓reduceIte]
  simp only [fromString, hitems]

/-- the version text (whitespace removed) does not begin with a comparator character or star -/
def plainStart (v : List Char) : Prop :=
  ∀ x ∈ (removeSpaces v).head?, comparatorChars.contains x = false

/-- (d4) EXPLICIT `=`: one constraint written `=v` or `v` -/
theorem conFromString_explicit_eq (mk : List Char → Except TErr (List Char)) (v : List Char)
    (h : plainStart v) : conFromString mk ('=' :: v) = conFromString mk v := by
  have hsp : isSpace '=' = false := by decide
  have e1 : removeSpaces ('=' :: v) = '=' :: removeSpaces v := by
    rw [removeSpaces_cons, hsp]; rfl
  have ea : isAsciiRepr ('=' :: removeSpaces v) = isAsciiRepr (removeSpaces v) := by
    have := isAsciiRepr_pad (x := []) (a := removeSpaces v) (y := []) ['='] []
      (by decide) (by intro c hc; cases hc)
    simpa using this
  have e2 : removeSpaces ('=' :: removeSpaces v) = '=' :: removeSpaces v := by
    rw [removeSpaces_cons, hsp, removeSpaces_idem]; rfl
  have es : split ('=' :: removeSpaces v) = split (removeSpaces v) := by
    simp only [split, e2, removeSpaces_idem]
    unfold plainStart at h
    cases hw : removeSpaces v with
    | nil => rfl
    | cons x xs =>
      rw [hw] at h
      have hx := h x (by simp)
      obtain ⟨h1, h2, h3, h4, h5⟩ := textSafe_head_ne hx
      have ne (a : Char) (hne : x ≠ a) : (a == x) = false := by
        simp only [beq_eq_false_iff_ne, ne_eq]; exact fun e => hne e.symm
      simp [comparatorTexts_eq, splitLoop, startsWith_cons_cons, lstripSet, ne, h1, h2, h3, h4, h5]
  simp only [conFromString, e1, ea, es]

/-- the loop only depends on what each item reads as -/
theorem conLoop_congr (mk : List Char → Except TErr (List Char)) (a b : List (List Char))
    {p p' : List Char} (h : conFromString mk p = conFromString mk p') :
    conLoop mk (a ++ p :: b) = conLoop mk (a ++ p' :: b) := by
  induction a with
  | nil => simp only [List.nil_append, conLoop, h]
  | cons q qs ih => simp only [List.cons_append, conLoop, ih]

/-- (d4) EXPLICIT `=` inside the list of constraint texts -/
theorem conLoop_explicit_eq (mk : List Char → Except TErr (List Char)) (a b : List (List Char))
    (v : List Char) (h : plainStart v) :
    conLoop mk (a ++ ('=' :: v) :: b) = conLoop mk (a ++ v :: b) :=
  conLoop_congr mk a b (conFromString_explicit_eq mk v h)

/-! ### (e) declared errors (C16) -/

theorem registryL_versionClass : ∀ p ∈ registryL, (versionClassOf p.2).isSome = true := by decide

/-- one constraint: `ValueError`, or what the version class raised -/
theorem conFromString_error {mk : List Char → Except TErr (List Char)} {t : List Char} {e : TErr}
    (h : conFromString mk t = .error e) : e = .ValueError ∨ ∃ v, mk v = .error e := by
  simp only [conFromString] at h
  split at h
  · cases h; exact .inl rfl
  · split at h
    · cases h; exact .inl rfl
    · cases h
    · split at h
      · cases h; exact .inl rfl
      · split at h
        · rename_i v e' hm
          cases h; exact .inr ⟨_, hm⟩
        · cases h

theorem conLoop_error {mk : List Char → Except TErr (List Char)} {ts : List (List Char)} {e : TErr}
    (h : conLoop mk ts = .error e) : e = .ValueError ∨ ∃ v, mk v = .error e := by
  induction ts with
  | nil => cases h
  | cons p ps ih =>
    simp only [conLoop] at h
    split at h
    · rename_i e' hc
      cases h; exact conFromString_error hc
    · split at h
      · cases h; exact .inl rfl
      · split at h
        · rename_i e' hl
          cases h; exact ih hl
        · cases h

/-- the loop returns no star -/
theorem conLoop_noStar {mk : List Char → Except TErr (List Char)} {ts : List (List Char)}
    {items : List TCon} (h : conLoop mk ts = .ok items) :
    items.all (fun c => !c.isStar) = true := by
  induction ts generalizing items with
  | nil => cases h; rfl
  | cons p ps ih =>
    simp only [conLoop] at h
    split at h
    · cases h
    · split at h
      · cases h
      · rename_i c _ hc
        split at h
        · cases h
        · rename_i cs hl
          cases h
          simp only [List.all_cons, ih hl, Bool.and_true]
          simpa using hc

theorem constraintBody_error {c : List Char} {e : TErr} (h : constraintBody c = .error e) :
    e = .ValueError := by
  simp only [constraintBody] at h
  split at h
  · cases h; rfl
  · split at h
    · split at h
      · cases h; rfl
      · cases h
    · cases h

theorem headerCore_error {v : List Char} {e : TErr} (h : headerCore v = .error e) :
    e = .ValueError := by
  simp only [headerCore] at h
  split at h
  · cases h; rfl
  · split at h
    · cases h; rfl
    · split at h
      · cases h; rfl
      · rename_i cls hl
        split at h
        · rename_i hv
          have := registryL_versionClass _ (lookup_some_mem hl)
          simp only [hv] at this
          cases this
        · cases h

theorem header_error {t : List Char} {e : TErr} (h : header t = .error e) : e = .ValueError := by
  rw [header_eq] at h
  split at h
  · cases h; rfl
  · exact headerCore_error h

theorem parseConstraints_error {mk : List Char → Except TErr (List Char)} {c : List Char}
    {e : TErr} (h : parseConstraints mk c = .error e) :
    e = .ValueError ∨ ∃ v, mk v = .error e := by
  simp only [parseConstraints] at h
  split at h
  · rename_i e' hc
    cases h; exact .inl (constraintBody_error hc)
  · split at h
    · rename_i e' hc
      cases h; exact conFromString_error hc
    · cases h
  · exact conLoop_error h

/-- what `parseConstraints` returns is a lone star or a list without star -/
theorem parseConstraints_starAlone {mk : List Char → Except TErr (List Char)} {c : List Char}
    {items : List TCon} (h : parseConstraints mk c = .ok items) : StarAlone items := by
  simp only [parseConstraints] at h
  split at h
  · cases h
  · have hstar : conFromString mk ['*'] = .ok .star := rfl
    rw [hstar] at h
    cases h; exact .inl rfl
  · exact .inr (conLoop_noStar h)

theorem fromStringItems_declared {mkVer : MkVer} {t : List Char} {e : TErr}
    (h : fromStringItems mkVer t = .error e) :
    e = .ValueError ∨ ∃ vc v, mkVer vc v = .error e := by
  simp only [fromStringItems] at h
  split at h
  · rename_i e' hh
    cases h; exact .inl (header_error hh)
  · rename_i scheme vc constraints hh
    split at h
    · rename_i e' hp
      cases h
      rcases parseConstraints_error hp with h1 | ⟨v, hv⟩
      · exact .inl h1
      · exact .inr ⟨vc, v, hv⟩
    · cases h

/-- (e) DECLARED ERRORS (C16), for every text: `from_string` returns, or raises `ValueError`,
or raises what the version class raised (`InvalidVersion` for a lawful version class) -/
theorem fromString_declared {mkVer : MkVer} {t : List Char} {e : TErr}
    (h : fromString mkVer t = .error e) :
    e = .ValueError ∨ ∃ vc v, mkVer vc v = .error e :=
  fromStringItems_declared h

/-- with a version class that only raises declared errors, so does `from_string` -/
theorem fromString_declared' {mkVer : MkVer} {t : List Char} {e : TErr}
    (hmk : ∀ vc v e, mkVer vc v = .error e → e.declared = true)
    (h : fromString mkVer t = .error e) : e.declared = true := by
  rcases fromString_declared h with h1 | ⟨vc, v, hv⟩
  · subst h1; rfl
  · exact hmk vc v e hv

/-- (e) the result is a lone star or has no star: `parsed_constraints.sort()` never compares
`None` with a version, no `TypeError` can come from the sort (FIXED CODE) -/
theorem fromString_starAlone {mkVer : MkVer} {t : List Char} {scheme : List Char}
    {items : List TCon} (h : fromString mkVer t = .ok (scheme, items)) : StarAlone items := by
  simp only [fromString, fromStringItems] at h
  split at h
  · cases h
  · split at h
    · cases h
    · rename_i items' hp
      cases h
      exact parseConstraints_starAlone hp

/-! ### (d3) trailing bars, for every text -/

/-- a text whose header yields no constraints text is a ValueError -/
theorem fromString_of_no_constraints (mkVer : MkVer) {t : List Char}
    (hnil : ∀ r, headerCore (removeSpaces t) = .ok r → r.2.2 = []) :
    fromString mkVer t = .error .ValueError := by
  have hh : ∀ e, header t = .error e → e = .ValueError := fun e => header_error
  simp only [fromString, fromStringItems]
  cases hd : header t with
  | error e => rw [hh e hd]
  | ok r =>
    obtain ⟨sch, vc, c⟩ := r
    rw [header_eq] at hd
    split at hd
    · cases hd
    · have : c = [] := hnil _ hd
      subst this
      rfl

theorem headerCore_nil_of_noColon {w : List Char} (h : ':' ∉ w) :
    ∀ r, headerCore w = .ok r → r.2.2 = [] := by
  intro r hr
  simp only [headerCore, partitionChar_of_not_mem h] at hr
  have hp : partitionChar '/' [] = ([], [], []) := rfl
  simp only [hp] at hr
  split at hr
  · cases hr
  · split at hr
    · cases hr
    · split at hr
      · cases hr
      · split at hr
        · cases hr
        · cases hr; rfl

theorem headerCore_nil_of_noSlash {a b : List Char} (ha : ':' ∉ a) (hb : '/' ∉ b) :
    ∀ r, headerCore (a ++ ':' :: b) = .ok r → r.2.2 = [] := by
  intro r hr
  simp only [headerCore, partitionChar_append _ ha, partitionChar_of_not_mem hb] at hr
  split at hr
  · cases hr
  · split at hr
    · cases hr
    · split at hr
      · cases hr
      · split at hr
        · cases hr
        · cases hr; rfl

theorem not_mem_append_bars {d : Char} (hd : d ≠ '|') {w : List Char} (h : d ∉ w) (m : Nat) :
    d ∉ w ++ bars m := by
  intro hm
  rcases List.mem_append.mp hm with h1 | h1
  · exact h h1
  · exact hd (List.eq_of_mem_replicate h1)

/-- (d3) TRAILING BARS never matter, for EVERY text -/
theorem fromString_trailing_bars (mkVer : MkVer) (t : List Char) (m : Nat) :
    fromString mkVer (t ++ bars m) = fromString mkVer t := by
  have e1 : fromString mkVer (t ++ bars m) = fromString mkVer (removeSpaces t ++ bars m) :=
    fromString_spaces mkVer (by
      rw [removeSpaces_append, removeSpaces_append, removeSpaces_idem])
  rw [e1, ← fromString_removeSpaces mkVer t]
  have hw := noSpace_removeSpaces t
  generalize removeSpaces t = w at hw
  have hwb : removeSpaces (w ++ bars m) = w ++ bars m := by
    rw [removeSpaces_append, removeSpaces_of_noSpace hw, removeSpaces_bars]
  by_cases hc : ':' ∈ w
  · obtain ⟨a, b, rfl, ha⟩ := List.eq_append_cons_of_mem hc
    by_cases hs : '/' ∈ b
    · obtain ⟨sc, c, rfl, hsc⟩ := List.eq_append_cons_of_mem hs
      have := fromString_bars mkVer a sc c 0 m ha hsc
      simpa [bars, List.append_assoc] using this
    · rw [fromString_of_no_constraints mkVer (t := a ++ ':' :: b ++ bars m),
        fromString_of_no_constraints mkVer (t := a ++ ':' :: b)]
      · rw [removeSpaces_of_noSpace hw]; exact headerCore_nil_of_noSlash ha hs
      · rw [hwb]
        have : a ++ ':' :: b ++ bars m = a ++ ':' :: (b ++ bars m) := by simp
        rw [this]
        exact headerCore_nil_of_noSlash ha (not_mem_append_bars (by decide) hs m)
  · rw [fromString_of_no_constraints mkVer (t := w ++ bars m),
      fromString_of_no_constraints mkVer (t := w)]
    · rw [removeSpaces_of_noSpace hw]; exact headerCore_nil_of_noColon hc
    · rw [hwb]; exact headerCore_nil_of_noColon (not_mem_append_bars (by decide) hc m)

/-- the accept-everything version class -/
def stubMkVer : MkVer := fun _ v => .ok v

/-- FIXED CODE: the star with stray bars is the star range; a star inside a list, a second
star, text after the star are ValueErrors -/
theorem fromString_star_witnesses :
    fromString stubMkVer "vers:npm/*|".toList = .ok ("npm".toList, [.star]) ∧
    fromString stubMkVer "vers:npm/|*".toList = .ok ("npm".toList, [.star]) ∧
    fromString stubMkVer "vers:npm/|*|".toList = .ok ("npm".toList, [.star]) ∧
    fromString stubMkVer "vers:npm/1.0|*".toList = .error .ValueError ∧
    fromString stubMkVer "vers:npm/|*|*".toList = .error .ValueError ∧
    fromString stubMkVer "vers:npm/1.0|*junk".toList = .error .ValueError ∧
    fromString stubMkVer "vers:npm/|".toList = .error .ValueError :=
  ⟨by rfl, by rfl, by rfl, by rfl, by rfl, by rfl, by rfl⟩

/-- FIXED CODE: `alpine` is a known scheme -/
theorem fromString_alpine :
    fromString stubMkVer "vers:alpine/1.0".toList =
      .ok ("alpine".toList, [.mk .eq "1.0".toList]) := by rfl

end Univers.Text.Vers
