/-
Layer C spec of the npm ("node-semver") range notation, for the fragment named by properties
C06 / C16: alternatives joined by `||`; each alternative is a hyphen range or a comparator set
whose members are a primitive comparator, an exact version, a caret range, a tilde range or an
x-range; every version is a fully specified release version `N.N.N`.

The desugaring (`Atom.constraints`, `Alt.constraints`) is written from the node-semver
documentation (https://github.com/npm/node-semver#advanced-range-syntax), not from the code:

    ^1.2.3 := >=1.2.3 <2.0.0      ^0.2.3 := >=0.2.3 <0.3.0      ^0.0.3 := >=0.0.3 <0.0.4
    ~1.2.3 := >=1.2.3 <1.3.0      1.2.x  := >=1.2.0 <1.3.0      1.x    := >=1.0.0 <2.0.0
    a - b  := >=a <=b             1.2.3  := =1.2.3

A comparator set is an intersection and `||` a union; the vers constraint LIST that
`from_native` produces is flat (it is what the range constructor then sorts), so the expected
result of an expression is the concatenation of the desugared alternatives.
No Mathlib.
-/
import Univers.Text.Err
import Univers.Scheme.Semver

namespace Univers.Text.Npm

open Univers Univers.Text
open Univers.Semver (natStr)

/-- a fully specified release version `major.minor.patch` -/
structure Rel where
  major : Nat
  minor : Nat
  patch : Nat
  deriving DecidableEq, Repr

/-- its text `N.N.N` (decimal, no leading zeros) -/
def Rel.text (v : Rel) : List Char :=
  natStr v.major ++ '.' :: (natStr v.minor ++ '.' :: natStr v.patch)

/-- the primitive comparators; equality has the two spellings `=` (node-semver) and `==`
(accepted by the converter) -/
inductive NOp where
  | lt | le | gt | ge | eq | eqeq
  deriving DecidableEq, Repr

def NOp.text : NOp → List Char
  | .lt => ['<'] | .le => ['<', '='] | .gt => ['>'] | .ge => ['>', '=']
  | .eq => ['='] | .eqeq => ['=', '=']

def NOp.cmpr : NOp → Cmpr
  | .lt => .lt | .le => .le | .gt => .gt | .ge => .ge | .eq => .eq | .eqeq => .eq

/-- one member of a comparator set -/
inductive Atom where
  /-- `<op><version>`, or `<op> <version>` when `spaced` -/
  | cmp (op : NOp) (spaced : Bool) (v : Rel)
  /-- `1.2.3` -/
  | exact (v : Rel)
  /-- `^1.2.3` -/
  | caret (v : Rel)
  /-- `~1.2.3` -/
  | tilde (v : Rel)
  /-- `1.x` -/
  | xMinor (major : Nat)
  /-- `1.2.x` -/
  | xPatch (major minor : Nat)
  deriving DecidableEq, Repr

/-- an alternative: a comparator set (members separated by one space) or `a - b` -/
inductive Alt where
  | set (atoms : List Atom)
  | hyphen (a b : Rel)
  deriving Repr

/-- a range: alternatives joined by `||` -/
abbrev Expr := List Alt

/-! ### rendering -/

/-- the whitespace-separated tokens of a member -/
def Atom.tokens : Atom → List (List Char)
  | .cmp op false v => [op.text ++ v.text]
  | .cmp op true v => [op.text, v.text]
  | .exact v => [v.text]
  | .caret v => ['^' :: v.text]
  | .tilde v => ['~' :: v.text]
  | .xMinor ma => [natStr ma ++ ['.', 'x']]
  | .xPatch ma mi => [natStr ma ++ '.' :: (natStr mi ++ ['.', 'x'])]

/-- `sep.join(parts)` -/
def joinStr (sep : List Char) : List (List Char) → List Char
  | [] => []
  | [x] => x
  | x :: y :: ys => x ++ sep ++ joinStr sep (y :: ys)

def Alt.render : Alt → List Char
  | .set atoms => joinStr [' '] (atoms.flatMap Atom.tokens)
  | .hyphen a b => a.text ++ [' ', '-', ' '] ++ b.text

def render (e : Expr) : List Char := joinStr ['|', '|'] (e.map Alt.render)

/-! ### meaning: the documented desugaring, as constraint texts -/

/-- the exclusive upper bound of `^v` (node-semver: "allows changes that do not modify the
left-most non-zero element") -/
def caretUpper (v : Rel) : Rel :=
  if v.major ≠ 0 then ⟨v.major + 1, 0, 0⟩
  else if v.minor ≠ 0 then ⟨0, v.minor + 1, 0⟩
  else ⟨0, 0, v.patch + 1⟩

/-- the exclusive upper bound of `~v` for a fully specified `v` ("patch-level changes") -/
def tildeUpper (v : Rel) : Rel := ⟨v.major, v.minor + 1, 0⟩

def Atom.constraints : Atom → List TCon
  | .cmp op _ v => [.mk op.cmpr v.text]
  | .exact v => [.mk .eq v.text]
  | .caret v => [.mk .ge v.text, .mk .lt (caretUpper v).text]
  | .tilde v => [.mk .ge v.text, .mk .lt (tildeUpper v).text]
  | .xMinor ma => [.mk .ge (Rel.text ⟨ma, 0, 0⟩), .mk .lt (Rel.text ⟨ma + 1, 0, 0⟩)]
  | .xPatch ma mi => [.mk .ge (Rel.text ⟨ma, mi, 0⟩), .mk .lt (Rel.text ⟨ma, mi + 1, 0⟩)]

def Alt.constraints : Alt → List TCon
  | .set atoms => atoms.flatMap Atom.constraints
  | .hyphen a b => [.mk .ge a.text, .mk .le b.text]

def constraintsOf (e : Expr) : List TCon := e.flatMap Alt.constraints

end Univers.Text.Npm
