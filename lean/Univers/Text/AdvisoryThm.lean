/-
Layer C — THEOREMS about the advisory notations and the simple relation converters
(model `Univers/Text/Advisory.lean`, spec `Univers/Text/AdvisorySpec.lean`).

(a) exactness (C15, C06): parsing a rendering gives exactly `constraintsOf mkVer e`
    (first rejection by the version constructor included)
      `github_exact`, `github_exact_scheme`      GitHub, one string or a list
      `snyk_exact`, `snyk_exact_scheme`          Snyk: comma form, space form, brackets
      `gitlab_exact_dict`, `gitlab_exact`        GitLab: `||`, separator, glued / separate comparator
      `deb_exact`                                Debian relations
      `rpm_exact`                                RPM relations (`<>` included)
      `openssl_exact`                            OpenSSL comma list
    key lemma `splitReq_item`: what `split_req` returns on a spelled item.
(b) the dict-order condition of `split_req` over the generated tables
      `split_req_order_ok_github`, `split_req_order_ok_snyk`,
      `split_req_order_ok` (every class of `Gen.nativeComparators`)
(c) `notations_agree`: GitHub = Snyk comma = Snyk space on the same expression
(d) declared errors (C16)
      `github_declared_partial` + `github_declared_counterexample` (KeyError, unknown scheme)
      `snyk_declared_partial` + `snyk_declared_counterexample`
      `gitlab_declared` (every known scheme), `gitlab_declared_counterexample_keyerror`
      `deb_declared`, `rpm_declared`, `openssl_declared`, `nginx_declared`, `nginx_declared_semver`
(e) nginx
      `nginx_dash`, `nginx_dash_equal`, `nginx_plus_stable`, `nginx_plus_mainline`, `nginx_plain`,
      `nginx_all`
      (any `NginxOps`), and with the Layer-A semver model on `a.b.c`:
      `nginx_dash_numeric`, `nginx_plus_stable_numeric`, `nginx_plus_mainline_numeric`,
      `nginx_dash_equal_numeric`, `nginx_plain_numeric`, `nginx_examples`, `nginx_dash_equal_examples`.
-/
import Univers.Text.AdvisorySpec
import Univers.Scheme.SemverThm

namespace Univers.Text.Advisory

open Univers Univers.Text

/-! ### list and string lemmas -/

theorem dropWhile_append_all {α : Type} (p : α → Bool) :
    ∀ (a b : List α), (∀ c ∈ a, p c = true) → (a ++ b).dropWhile p = b.dropWhile p
  | [], _, _ => rfl
  | x :: a, b, h => by
    have hx : p x = true := h x (by simp)
    simp only [List.cons_append, List.dropWhile_cons, hx, ↓reduceIte]
    exact dropWhile_append_all p a b (fun c hc => h c (by simp [hc]))

theorem dropWhile_of_head {α : Type} (p : α → Bool) (x : α) (l : List α) (h : p x = false) :
    (x :: l).dropWhile p = x :: l := by
  simp [h]

theorem removeSpaces_append (a b : Str) : removeSpaces (a ++ b) = removeSpaces a ++ removeSpaces b := by
  simp [removeSpaces]

theorem removeSpaces_ws (s : Str) (h : allWs s = true) : removeSpaces s = [] := by
  unfold removeSpaces
  rw [List.filter_eq_nil_iff]
  intro c hc
  have := List.all_eq_true.mp h c hc
  simp [this]

theorem removeSpaces_clean (s : Str) (h : ∀ c ∈ s, isPySpace c = false) : removeSpaces s = s := by
  unfold removeSpaces
  rw [List.filter_eq_self]
  intro c hc
  simp [h c hc]

theorem removeSpaces_idem (s : Str) : removeSpaces (removeSpaces s) = removeSpaces s := by
  simp [removeSpaces]

theorem mem_removeSpaces {c : Char} {s : Str} (h : c ∈ removeSpaces s) : c ∈ s ∧ isPySpace c = false := by
  unfold removeSpaces at h
  have := List.mem_filter.mp h
  exact ⟨this.1, by simpa using this.2⟩

/-- `k` made of characters of `S`, `v` starting outside `S`: `k` is a prefix of `key ++ v` iff it
is a prefix of `key` -/
theorem isPrefixOf_append_head (S : Str) (h : Char) (t : Str) (hh : h ∉ S) :
    ∀ (k key : Str), (∀ c ∈ k, c ∈ S) → k.isPrefixOf (key ++ h :: t) = k.isPrefixOf key
  | [], _, _ => by simp
  | a :: k, [], hk => by
    have ha : a ∈ S := hk a (by simp)
    have : a ≠ h := fun e => hh (e ▸ ha)
    simp [List.isPrefixOf, this]
  | a :: k, x :: key, hk => by
    simp only [List.cons_append, List.isPrefixOf]
    rw [isPrefixOf_append_head S h t hh k key (fun c hc => hk c (by simp [hc]))]

theorem find_congr' {α : Type} (p q : α → Bool) :
    ∀ (l : List α), (∀ x ∈ l, p x = q x) → l.find? p = l.find? q
  | [], _ => rfl
  | x :: l, h => by
    simp only [List.find?_cons, h x (by simp)]
    rw [find_congr' p q l (fun y hy => h y (by simp [hy]))]

theorem mem_cmpChars {d : Dict} {kv : Str × Option Str} (hkv : kv ∈ d) {c : Char} (hc : c ∈ kv.1) :
    c ∈ cmpChars d := by
  unfold cmpChars
  exact List.mem_flatMap.mpr ⟨kv, hkv, hc⟩

/-- `rstrip` of a text whose last character is kept -/
theorem rstripSet_append_all (set : Str) (a b : Str) (hb : ∀ c ∈ b, set.contains c = true) :
    rstripSet set (a ++ b) = rstripSet set a := by
  unfold rstripSet
  rw [List.reverse_append, dropWhile_append_all _ _ _ (fun c hc => hb c (List.mem_reverse.mp hc))]

theorem rstripSet_last (set : Str) (a : Str) (x : Char) (hx : set.contains x = false) :
    rstripSet set (a ++ [x]) = a ++ [x] := by
  unfold rstripSet
  rw [List.reverse_append]
  simp only [List.reverse_cons, List.reverse_nil, List.nil_append, List.cons_append]
  rw [dropWhile_of_head _ _ _ hx]
  simp

/-- a non-empty list as `init ++ [last]` -/
theorem exists_snoc {α : Type} : ∀ (l : List α), l ≠ [] → ∃ a x, l = a ++ [x]
  | [], h => absurd rfl h
  | [x], _ => ⟨[], x, rfl⟩
  | x :: y :: l, _ => by
    obtain ⟨a, z, h⟩ := exists_snoc (y :: l) (by simp)
    exact ⟨x :: a, z, by rw [h]; rfl⟩

/-! ### `VersionConstraint(comparator, version)` on the six vers comparators -/

theorem mkCon_cmprText (c : Cmpr) (v : Str) : mkCon (some (cmprText c)) v = .ok (.mk c v) := by
  cases c <;> rfl

theorem buildCon_cmprText (mk : Str → Except TErr Str) (c : Cmpr) (t : Str) :
    buildCon mk (some (cmprText c)) t =
      match mk t with
      | .error e => .error e
      | .ok v => .ok (.mk c v) := by
  unfold buildCon
  cases mk t <;> simp [mkCon_cmprText]

/-! ### the key lemma: `split_req` on a spelled item -/

theorem safeV_cons {d : Dict} {bad : Str} {v : Str} (h : safeV d bad v = true) :
    ∃ x t, v = x :: t ∧ x ∉ cmpChars d ∧ (∀ c ∈ v, isPySpace c = false ∧ c ∉ bad) := by
  cases v with
  | nil => simp [safeV] at h
  | cons x t =>
    simp only [safeV, Bool.and_eq_true, Bool.not_eq_true'] at h
    refine ⟨x, t, rfl, ?_, ?_⟩
    · simpa using h.2
    · intro c hc
      have := List.all_eq_true.mp h.1 c hc
      simpa using this

theorem keysOk_mem {d : Dict} {bad : Str} (h : keysOk d bad = true) {kv : Str × Option Str}
    (hkv : kv ∈ d) : kv.1 ≠ [] ∧ ∀ c ∈ kv.1, isPySpace c = false ∧ c ∉ bad := by
  have := List.all_eq_true.mp h kv hkv
  simp only [Bool.and_eq_true, Bool.not_eq_true'] at this
  refine ⟨by simpa using this.1, ?_⟩
  intro c hc
  have := List.all_eq_true.mp this.2 c hc
  simpa using this

/-- On `left ++ item ++ right`, where `left`/`right` are made of whitespace and stripped
characters, `split_req` returns the comparator and the version of the item — provided the key is
read correctly by the dict order (`keyFine`). -/
theorem splitReq_item (d : Dict) (dflt : Option Str) (strip bad : Str)
    (hsb : ∀ c ∈ strip, c ∈ bad) (hk : keysOk d bad = true)
    (i : Item) (L R : Str) (hi : i.WF d bad)
    (hf : keyFine d i.key (some (cmprText i.c)) = true)
    (hL : ∀ c ∈ L, isPySpace c = true ∨ c ∈ strip) (hR : ∀ c ∈ R, isPySpace c = true ∨ c ∈ strip) :
    splitReq (L ++ (i.text ++ R)) d dflt strip = .ok (some (cmprText i.c), i.v) := by
  obtain ⟨hsp, hpre, hmid, hpost, hv⟩ := hi
  obtain ⟨x, t, hvx, hx, hvall⟩ := safeV_cons hv
  obtain ⟨hkne, hkall⟩ := keysOk_mem hk hsp
  simp only at hkne hkall
  -- after `remove_spaces`
  have hrs : removeSpaces (L ++ (i.text ++ R)) =
      removeSpaces L ++ (i.key ++ (i.v ++ removeSpaces R)) := by
    simp only [Item.text, removeSpaces_append, removeSpaces_ws _ hpre, removeSpaces_ws _ hmid,
      removeSpaces_ws _ hpost, removeSpaces_clean _ (fun c hc => (hkall c hc).1),
      removeSpaces_clean _ (fun c hc => (hvall c hc).1), List.nil_append, List.append_assoc]
  have hL' : ∀ c ∈ removeSpaces L, strip.contains c = true := by
    intro c hc
    obtain ⟨h1, h2⟩ := mem_removeSpaces hc
    cases hL c h1 with
    | inl h => simp [h] at h2
    | inr h => simpa using h
  have hR' : ∀ c ∈ removeSpaces R, strip.contains c = true := by
    intro c hc
    obtain ⟨h1, h2⟩ := mem_removeSpaces hc
    cases hR c h1 with
    | inl h => simp [h] at h2
    | inr h => simpa using h
  -- after `.strip(strip)`
  have hstrip : stripSet strip (removeSpaces (L ++ (i.text ++ R))) = i.key ++ i.v := by
    rw [hrs]
    unfold stripSet lstripSet
    rw [dropWhile_append_all _ _ _ hL']
    obtain ⟨k0, kt, hk0⟩ : ∃ k0 kt, i.key = k0 :: kt := by
      cases hkey : i.key with
      | nil => exact absurd hkey hkne
      | cons a b => exact ⟨a, b, rfl⟩
    have hk0n : strip.contains k0 = false := by
      have : k0 ∉ bad := (hkall k0 (by rw [hk0]; simp)).2
      cases hc : strip.contains k0 with
      | false => rfl
      | true => exact absurd (hsb k0 (by simpa using hc)) this
    rw [hk0, List.cons_append, dropWhile_of_head _ _ _ hk0n, ← List.cons_append, ← hk0]
    have e1 : i.key ++ (i.v ++ removeSpaces R) = (i.key ++ i.v) ++ removeSpaces R := by simp
    rw [e1, rstripSet_append_all _ _ _ hR']
    obtain ⟨a, z, hz⟩ := exists_snoc i.v (by rw [hvx]; simp)
    have hzn : strip.contains z = false := by
      have : z ∉ bad := (hvall z (by rw [hz]; simp)).2
      cases hc : strip.contains z with
      | false => rfl
      | true => exact absurd (hsb z (by simpa using hc)) this
    rw [hz, ← List.append_assoc, rstripSet_last _ _ _ hzn]
  -- the dict search
  have hfind : d.find? (fun kv => kv.1.isPrefixOf (i.key ++ i.v)) = firstMatch d i.key := by
    unfold firstMatch
    apply find_congr'
    intro kv hkv
    rw [hvx]
    exact isPrefixOf_append_head (cmpChars d) x t hx kv.1 i.key (fun c hc => mem_cmpChars hkv hc)
  unfold splitReq
  simp only [hstrip, hfind]
  unfold keyFine at hf
  cases hfm : firstMatch d i.key with
  | none => simp [hfm] at hf
  | some kv =>
    simp only [hfm, Bool.and_eq_true, beq_iff_eq] at hf
    have hmem : kv ∈ d := List.mem_of_find?_eq_some hfm
    have hall : ∀ c ∈ i.key, kv.1.contains c = true := fun c hc => List.all_eq_true.mp hf.2 c hc
    have hxn : kv.1.contains x = false := by
      cases hc : kv.1.contains x with
      | false => rfl
      | true => exact absurd (mem_cmpChars hmem (by simpa using hc)) hx
    simp only [hf.1]
    unfold lstripSet
    rw [dropWhile_append_all _ _ _ hall, hvx, dropWhile_of_head _ _ _ hxn]

/-! ### `collect`, `constraintsOf`, `split`, `join` -/

theorem collect_append {α β : Type} (f : α → Except TErr (List β)) :
    ∀ (xs ys : List α), collect f (xs ++ ys) =
      match collect f xs with
      | .error e => .error e
      | .ok a => match collect f ys with
        | .error e => .error e
        | .ok b => .ok (a ++ b)
  | [], ys => by
    simp only [List.nil_append, collect]
    cases collect f ys <;> rfl
  | x :: xs, ys => by
    simp only [List.cons_append, collect]
    rw [collect_append f xs ys]
    cases f x with
    | error e => rfl
    | ok a =>
      cases collect f xs with
      | error e => rfl
      | ok b =>
        cases collect f ys with
        | error e => rfl
        | ok c => simp

theorem collect_flatMap {α β γ : Type} (f : β → Except TErr (List γ)) (h : α → List β) :
    ∀ (gs : List α), collect (fun g => collect f (h g)) gs = collect f (gs.flatMap h)
  | [] => rfl
  | g :: gs => by
    simp only [List.flatMap_cons, collect, collect_append]
    rw [collect_flatMap f h gs]
    cases collect f (h g) with
    | error e => rfl
    | ok a => cases collect f (List.flatMap h gs) <;> rfl

theorem collect_map {α β γ : Type} (f : β → Except TErr (List γ)) (g : α → β) :
    ∀ (xs : List α), collect f (xs.map g) = collect (fun x => f (g x)) xs
  | [] => rfl
  | x :: xs => by simp only [List.map_cons, collect, collect_map f g xs]

theorem collect_congr {α β : Type} (f g : α → Except TErr (List β)) :
    ∀ (xs : List α), (∀ x ∈ xs, f x = g x) → collect f xs = collect g xs
  | [], _ => rfl
  | x :: xs, h => by
    simp only [collect, h x (by simp), collect_congr f g xs (fun y hy => h y (by simp [hy]))]

theorem constraintsOf_append (mk : Str → Except TErr Str) :
    ∀ (a b : AST), constraintsOf mk (a ++ b) =
      match constraintsOf mk a with
      | .error e => .error e
      | .ok x => match constraintsOf mk b with
        | .error e => .error e
        | .ok y => .ok (x ++ y)
  | [], b => by
    simp only [List.nil_append, constraintsOf]
    cases constraintsOf mk b <;> rfl
  | (c, v) :: a, b => by
    simp only [List.cons_append, constraintsOf]
    rw [constraintsOf_append mk a b]
    cases mk v with
    | error e => rfl
    | ok v' =>
      cases constraintsOf mk a with
      | error e => rfl
      | ok x =>
        cases constraintsOf mk b with
        | error e => rfl
        | ok y => simp

/-- a loop whose body yields what each element states yields what the whole list states -/
theorem collect_eq_constraintsOf {α : Type} (mk : Str → Except TErr Str)
    (F : α → Except TErr (List TCon)) (pairs : α → AST) :
    ∀ (xs : List α), (∀ x ∈ xs, F x = constraintsOf mk (pairs x)) →
      collect F xs = constraintsOf mk (xs.flatMap pairs)
  | [], _ => rfl
  | x :: xs, h => by
    simp only [List.flatMap_cons, collect, constraintsOf_append, h x (by simp)]
    rw [collect_eq_constraintsOf mk F pairs xs (fun y hy => h y (by simp [hy]))]
    cases constraintsOf mk (pairs x) with
    | error e => rfl
    | ok a => cases constraintsOf mk (List.flatMap pairs xs) <;> rfl

theorem constraintsOf_single (mk : Str → Except TErr Str) (c : Cmpr) (v : Str) :
    constraintsOf mk [(c, v)] =
      match mk v with
      | .error e => .error e
      | .ok v' => .ok [.mk c v'] := by
  simp only [constraintsOf]
  cases mk v <;> rfl

/-- a loop that appends one constraint per element -/
theorem collect_single_eq {α : Type} (mk : Str → Except TErr Str) (G : α → Except TErr TCon)
    (pair : α → Cmpr × Str) :
    ∀ (xs : List α),
      (∀ x ∈ xs, G x = match mk (pair x).2 with
        | .error e => .error e
        | .ok v' => .ok (.mk (pair x).1 v')) →
      collect (fun x => match G x with
        | .error e => .error e
        | .ok k => .ok [k]) xs = constraintsOf mk (xs.map pair)
  | [], _ => rfl
  | x :: xs, h => by
    simp only [List.map_cons, collect, h x (by simp)]
    rw [collect_single_eq mk G pair xs (fun y hy => h y (by simp [hy]))]
    rcases hp : pair x with ⟨c, v⟩
    simp only [constraintsOf]
    cases mk v with
    | error e => rfl
    | ok v' => cases constraintsOf mk (List.map pair xs) <;> rfl

theorem splitOn_ne_nil (sep : Char) : ∀ (s : Str), splitOn sep s ≠ []
  | [] => by simp [splitOn]
  | c :: cs => by
    unfold splitOn
    split
    · simp
    · split <;> simp

theorem splitOn_cons_of_ne (sep c : Char) (cs h : Str) (t : List Str) (hc : (c == sep) = false)
    (hs : splitOn sep cs = h :: t) : splitOn sep (c :: cs) = (c :: h) :: t := by
  rw [splitOn]
  simp [hc, hs]

theorem splitOn_nosep (sep : Char) : ∀ (t : Str), sep ∉ t → splitOn sep t = [t]
  | [], _ => rfl
  | c :: t, h => by
    have hc : (c == sep) = false := by
      cases e : c == sep with
      | false => rfl
      | true => exact absurd (by simp [beq_iff_eq.mp e]) h
    exact splitOn_cons_of_ne sep c t t [] hc (splitOn_nosep sep t (fun hm => h (by simp [hm])))

theorem splitOn_append_sep (sep : Char) (rest : Str) :
    ∀ (t : Str), sep ∉ t → splitOn sep (t ++ sep :: rest) = t :: splitOn sep rest
  | [], _ => by simp [splitOn]
  | c :: t, h => by
    have hc : (c == sep) = false := by
      cases e : c == sep with
      | false => rfl
      | true => exact absurd (by simp [beq_iff_eq.mp e]) h
    rw [List.cons_append]
    exact splitOn_cons_of_ne sep c _ t _ hc (splitOn_append_sep sep rest t (fun hm => h (by simp [hm])))

/-- `sep.join(ts).split(sep) == ts` for a non-empty list of `sep`-free texts -/
theorem splitOn_joinWith (sep : Char) :
    ∀ (ts : List Str), ts ≠ [] → (∀ t ∈ ts, sep ∉ t) → splitOn sep (joinWith sep ts) = ts
  | [], h, _ => absurd rfl h
  | [t], _, h => by simp [joinWith, splitOn_nosep sep t (h t (by simp))]
  | t :: u :: ts, _, h => by
    simp only [joinWith]
    rw [splitOn_append_sep sep _ t (h t (by simp)),
      splitOn_joinWith sep (u :: ts) (by simp) (fun x hx => h x (by simp [hx]))]

/-! ### (b) the order condition over the generated dictionaries -/

/-- the dictionaries of the classes, as the model reads them -/
def debDict : Dict := (nativeDict "DebianVersionRange").getD []
def rpmDict : Dict := (nativeDict "RpmVersionRange").getD []

theorem nativeDict_deb : nativeDict "DebianVersionRange" = some debDict := by decide
theorem nativeDict_rpm : nativeDict "RpmVersionRange" = some rpmDict := by decide

/-- (b) GitHub and Snyk dictionaries: no key is shadowed -/
theorem split_req_order_ok_github : orderOk githubDict = true := by decide
theorem split_req_order_ok_snyk : orderOk snykDict = true := by decide

/-- (b) every per-class dictionary (rpm and pypi included, since `<>` precedes `<` and `===`
precedes `==`): no key is shadowed by an earlier key that is a proper prefix with another meaning -/
theorem split_req_order_ok :
    ∀ p ∈ Gen.nativeComparators, orderOk (ofGen p.2) = true := by decide

/-- the former defect stays fixed: `<>` is found before `<` -/
theorem split_req_order_rpm_ne :
    firstMatch rpmDict ['<', '>'] = some (['<', '>'], some ['!', '=']) := by decide

theorem keysOk_github : keysOk githubDict githubBad = true := by decide
theorem keysOk_snyk : keysOk snykDict snykBad = true := by decide
theorem keysOk_deb : keysOk debDict debBad = true := by decide
theorem keysOk_rpm : keysOk rpmDict rpmBad = true := by decide

theorem keyFine_of_orderOk {d : Dict} (h : orderOk d = true) {k : Str} {v : Option Str}
    (hm : (k, v) ∈ d) : keyFine d k v = true := by
  unfold orderOk shadowed at h
  have h' := List.filter_eq_nil_iff.mp (List.isEmpty_iff.mp h) (k, v) hm
  simpa using h'

/-! ### (a) exactness: GitHub, Debian, RPM -/

theorem Item.not_mem_text {d : Dict} {bad : Str} (hk : keysOk d bad = true) {i : Item}
    (hi : i.WF d bad) {c : Char} (hc : c ∈ bad) (hws : isPySpace c = false) : c ∉ i.text := by
  obtain ⟨hsp, hpre, hmid, hpost, hv⟩ := hi
  obtain ⟨x, t, hvx, hx, hvall⟩ := safeV_cons hv
  obtain ⟨_, hkall⟩ := keysOk_mem hk hsp
  have ws : ∀ s, allWs s = true → c ∉ s := by
    intro s hs hm
    have := List.all_eq_true.mp hs c hm
    simp [hws] at this
  intro hm
  simp only [Item.text, List.mem_append] at hm
  rcases hm with h | h | h | h | h
  · exact ws _ hpre h
  · exact (hkall c h).2 hc
  · exact ws _ hmid h
  · exact (hvall c h).2 hc
  · exact ws _ hpost h

/-- what one spelled item gives through `build_constraint_from_…_string` -/
theorem relConstraint_item (mk : Str → Except TErr Str) (d : Dict) (strip : Str)
    (hk : keysOk d strip = true) (r : Rel) (hr : r.WF d strip)
    (hf : keyFine d r.item.key (some (cmprText r.item.c)) = true) :
    relConstraint mk d strip r.text =
      match mk r.item.v with
      | .error e => .error e
      | .ok v' => .ok (.mk r.item.c v') := by
  obtain ⟨hi, hL, hR⟩ := hr
  have hL' : ∀ c ∈ r.left, isPySpace c = true ∨ c ∈ strip := by
    intro c hc
    have := List.all_eq_true.mp hL c hc
    simpa using this
  have hR' : ∀ c ∈ r.right, isPySpace c = true ∨ c ∈ strip := by
    intro c hc
    have := List.all_eq_true.mp hR c hc
    simpa using this
  unfold relConstraint Rel.text
  rw [splitReq_item d none strip strip (fun _ h => h) hk r.item r.left r.right hi hf hL' hR']
  simp only [buildCon_cmprText]

theorem githubConstraint_item (mk : Str → Except TErr Str) (i : Item)
    (hi : i.WF githubDict githubBad) :
    githubConstraint mk i.text =
      match mk i.v with
      | .error e => .error e
      | .ok v' => .ok (.mk i.c v') := by
  have h := splitReq_item githubDict none [] githubBad (fun _ h => by simp at h) keysOk_github i [] []
    hi (keyFine_of_orderOk split_req_order_ok_github hi.1) (by simp) (by simp)
  simp only [List.nil_append, List.append_nil] at h
  unfold githubConstraint
  rw [h]
  simp only [buildCon_cmprText]

theorem flatMap_splitOn_render {α : Type} (sep : Char) (text : α → Str) :
    ∀ (gs : List (List α)), (∀ g ∈ gs, g ≠ [] ∧ ∀ i ∈ g, sep ∉ text i) →
      (gs.map (fun g => joinWith sep (g.map text))).flatMap (splitOn sep) = gs.flatten.map text
  | [], _ => rfl
  | g :: gs, h => by
    simp only [List.map_cons, List.flatMap_cons, List.flatten_cons, List.map_append]
    rw [flatMap_splitOn_render sep text gs (fun x hx => h x (by simp [hx]))]
    have hg := h g (by simp)
    rw [splitOn_joinWith sep (g.map text) (by simpa using hg.1)
      (by intro t ht; obtain ⟨i, hi, rfl⟩ := List.mem_map.mp ht; exact hg.2 i hi)]

/-- (a) GitHub: a rendering of `e` — any spelling of each comparator, optional whitespace, comma
joined, one string or several — converts to exactly the constraints `e` states. -/
theorem github_exact (mk : Str → Except TErr Str) (gs : List (List Item))
    (h : GroupsWF githubDict githubBad gs) :
    githubItems mk (renderGithub gs) = constraintsOf mk (astOf gs) := by
  unfold githubItems renderGithub astOf
  rw [collect_flatMap, flatMap_splitOn_render ',' Item.text gs
    (fun g hg => ⟨(h g hg).1, fun i hi =>
      Item.not_mem_text keysOk_github ((h g hg).2 i hi) (by simp [githubBad]) (by decide)⟩)]
  rw [collect_map]
  exact collect_single_eq mk (fun x => githubConstraint mk (Item.text x)) Item.pair gs.flatten
    (by
      intro i hi
      obtain ⟨g, hg, hig⟩ := List.mem_flatten.mp hi
      exact githubConstraint_item mk i ((h g hg).2 i hig))

/-- the same through the entry point, for a registered scheme with version class `vc` -/
theorem github_exact_scheme (mkVerOf : String → Str → Except TErr Str) (scheme cls vc : String)
    (hs : rangeClassOf scheme = some cls) (hv : versionClassOf cls = some vc)
    (gs : List (List Item)) (h : GroupsWF githubDict githubBad gs) :
    fromGithub mkVerOf scheme (renderGithub gs) = constraintsOf (mkVerOf vc) (astOf gs) := by
  unfold fromGithub verOfScheme
  simp only [hs, hv]
  exact github_exact _ gs h

theorem relNatives_exact (mk : Str → Except TErr Str) (cls : String) (d : Dict) (strip : Str)
    (hd : nativeDict cls = some d) (hk : keysOk d strip = true) (rs : List Rel)
    (h : ∀ r ∈ rs, r.WF d strip ∧ keyFine d r.item.key (some (cmprText r.item.c)) = true) :
    relNatives mk cls strip (rs.map Rel.text) = constraintsOf mk (relAst rs) := by
  unfold relNatives relAst
  rw [collect_map]
  simp only [hd]
  exact collect_single_eq mk (fun x => relConstraint mk d strip (Rel.text x))
    (fun r => r.item.pair) rs
    (fun r hr => relConstraint_item mk d strip hk r (h r hr).1 (h r hr).2)

/-- (a) Debian: every relation `(>= 1.0)`, `<< 2`, … of a list (C06 for `deb`) -/
theorem deb_exact (mk : Str → Except TErr Str) (rs : List Rel) (h : ∀ r ∈ rs, r.WF debDict debBad) :
    debNatives mk (rs.map Rel.text) = constraintsOf mk (relAst rs) :=
  relNatives_exact mk _ debDict debBad nativeDict_deb keysOk_deb rs
    (fun r hr => ⟨h r hr, keyFine_of_orderOk
      (split_req_order_ok ("DebianVersionRange", _) (by decide))
      (h r hr).1.1⟩)

/-- (a) RPM (C06 for `rpm`): every relation `>= 1.0`, `<> 1.0`, `== 1,` … of a list -/
theorem rpm_exact (mk : Str → Except TErr Str) (rs : List Rel) (h : ∀ r ∈ rs, r.WF rpmDict rpmBad) :
    rpmNatives mk (rs.map Rel.text) = constraintsOf mk (relAst rs) :=
  relNatives_exact mk _ rpmDict rpmBad nativeDict_rpm keysOk_rpm rs
    (fun r hr => ⟨h r hr, keyFine_of_orderOk
      (split_req_order_ok ("RpmVersionRange", _) (by decide))
      (h r hr).1.1⟩)

instance (d : Dict) (strip : Str) (r : Rel) : Decidable (r.WF d strip) := by
  unfold Rel.WF; infer_instance

/-- the `<>` spelling of `!= 1.0` is now read as stated -/
theorem rpm_exact_ne_example :
    let r : Rel := ⟨⟨.ne, ['1', '.', '0'], ['<', '>'], [], [' '], []⟩, [], []⟩
    r.WF rpmDict rpmBad ∧ rpmNatives .ok [r.text] = .ok [.mk .ne ['1', '.', '0']] := by
  refine ⟨by decide, by rfl⟩

/-! ### Snyk -/

def isBracket (c : Char) : Bool := c == '[' || c == ']' || c == '(' || c == ')'

theorem hasBracket_removeSpaces : ∀ (t : Str), hasBracket (removeSpaces t) = hasBracket t
  | [] => rfl
  | c :: t => by
    have ih := hasBracket_removeSpaces t
    unfold hasBracket removeSpaces at *
    by_cases h : isPySpace c = true
    · have hb : (c == '[' || c == ']' || c == '(' || c == ')') = false := by
        cases h1 : c == '[' <;> cases h2 : c == ']' <;> cases h3 : c == '(' <;> cases h4 : c == ')' <;>
          simp_all [isPySpace] <;> (subst_vars; simp at h)
      simp [List.filter_cons, h, List.any_cons, hb, ih]
    · simp [List.filter_cons, h, List.any_cons, ih]

theorem splitReq_removeSpaces (t : Str) (d : Dict) (dflt : Option Str) (strip : Str) :
    splitReq (removeSpaces t) d dflt strip = splitReq t d dflt strip := by
  unfold splitReq; rw [removeSpaces_idem]

theorem splitReqBracket_removeSpaces (t : Str) :
    splitReqBracket (removeSpaces t) = splitReqBracket t := by
  unfold splitReqBracket; rw [removeSpaces_idem]

/-- a Snyk constraint only depends on the text without its whitespace -/
theorem snykConstraint_removeSpaces (mk : Str → Except TErr Str) (t : Str) :
    snykConstraint mk (removeSpaces t) = snykConstraint mk t := by
  unfold snykConstraint
  rw [hasBracket_removeSpaces, splitReq_removeSpaces, splitReqBracket_removeSpaces]

theorem stripWs_clean (s : Str) (h : ∀ c ∈ s, isPySpace c = false) : stripWs s = s := by
  unfold stripWs
  have d1 : ∀ (l : Str), (∀ c ∈ l, isPySpace c = false) → l.dropWhile isPySpace = l := by
    intro l hl
    cases l with
    | nil => rfl
    | cons a l => exact dropWhile_of_head _ _ _ (hl a (by simp))
  rw [d1 s h, d1 s.reverse (fun c hc => h c (List.mem_reverse.mp hc)), List.reverse_reverse]

theorem cmprText_ne_nil (c : Cmpr) : (cmprText c).isEmpty = false := by cases c <;> rfl

/-- the part of the loop body after the split -/
def snykTail (mk : Str → Except TErr Str) (cv : Option Str × Str) : Except TErr (List TCon) :=
  if (match cv.1 with | some t => !t.isEmpty | none => false) && !cv.2.isEmpty then
    match buildCon mk cv.1 cv.2 with
    | .error e => .error e
    | .ok k => .ok [k]
  else .ok []

theorem snykConstraint_eq (mk : Str → Except TErr Str) (t : Str) :
    snykConstraint mk t =
      match (if hasBracket t then splitReqBracket t else splitReq t snykDict none []) with
      | .error e => .error e
      | .ok cv => snykTail mk cv := by
  unfold snykConstraint snykTail
  cases (if hasBracket t then splitReqBracket t else splitReq t snykDict none []) with
  | error e => rfl
  | ok cv => rfl

theorem snykTail_cmpr (mk : Str → Except TErr Str) (c : Cmpr) (x : Char) (t : Str) :
    snykTail mk (some (cmprText c), x :: t) = constraintsOf mk [(c, x :: t)] := by
  unfold snykTail
  simp only [cmprText_ne_nil, Bool.not_false, List.isEmpty_cons, Bool.and_self, ↓reduceIte,
    buildCon_cmprText, constraintsOf_single]
  cases mk (x :: t) <;> rfl

theorem snykTail_empty (mk : Str → Except TErr Str) (c : Option Str) :
    snykTail mk (c, []) = .ok [] := by
  unfold snykTail
  simp

/-- the comparator-spelled piece -/
theorem snykConstraint_item (mk : Str → Except TErr Str) (i : Item) (hi : i.WF snykDict snykBad) :
    snykConstraint mk i.text = constraintsOf mk [i.pair] := by
  have hb : hasBracket i.text = false := by
    unfold hasBracket
    rw [Bool.eq_false_iff]
    intro h
    obtain ⟨c, hc, hcb⟩ := List.any_eq_true.mp h
    have hbad : c ∈ snykBad ∧ isPySpace c = false := by
      simp only [Bool.or_eq_true, beq_iff_eq] at hcb
      rcases hcb with ((h | h) | h) | h <;> subst h <;> exact ⟨by simp [snykBad], by decide⟩
    exact Item.not_mem_text keysOk_snyk hi hbad.1 hbad.2 hc
  have h := splitReq_item snykDict none [] snykBad (fun _ h => by simp at h) keysOk_snyk i [] []
    hi (keyFine_of_orderOk split_req_order_ok_snyk hi.1) (by simp) (by simp)
  simp only [List.nil_append, List.append_nil] at h
  obtain ⟨x, t, hvx, _, _⟩ := safeV_cons hi.2.2.2.2
  rw [snykConstraint_eq]
  simp only [hb, Bool.false_eq_true, ↓reduceIte, h, Item.pair, hvx, snykTail_cmpr]

theorem safeV_snyk_no_bracket {v : Str} (hv : safeV snykDict snykBad v = true) :
    (∀ c ∈ v, isPySpace c = false) ∧ (∀ c ∈ v, c ≠ '[' ∧ c ≠ ']' ∧ c ≠ '(' ∧ c ≠ ')') := by
  obtain ⟨x, t, _, _, hall⟩ := safeV_cons hv
  refine ⟨fun c hc => (hall c hc).1, fun c hc => ?_⟩
  have := (hall c hc).2
  simp only [snykBad, List.mem_cons, List.not_mem_nil, or_false, not_or] at this
  exact ⟨this.2.1, this.2.2.1, this.2.2.2.1, this.2.2.2.2⟩

/-- `[v` and `(v` -/
theorem snykConstraint_lower (mk : Str → Except TErr Str) (closed : Bool) (v : Str)
    (hv : safeV snykDict snykBad v = true) :
    snykConstraint mk ((if closed then '[' else '(') :: v) =
      constraintsOf mk [(if closed then Cmpr.ge else Cmpr.gt, v)] := by
  obtain ⟨hws, hnb⟩ := safeV_snyk_no_bracket hv
  obtain ⟨x, t, hvx, _, _⟩ := safeV_cons hv
  have hx := hnb x (by rw [hvx]; simp)
  have hclean : ∀ c ∈ (if closed then '[' else '(') :: v, isPySpace c = false := by
    intro c hc
    rcases List.mem_cons.mp hc with h | h
    · subst h; cases closed <;> decide
    · exact hws c h
  rw [snykConstraint_eq]
  unfold splitReqBracket
  rw [removeSpaces_clean _ hclean, stripWs_clean _ hclean]
  cases closed
  · have e : lstripSet ['('] ('(' :: x :: t) = x :: t := by
      unfold lstripSet
      simp [List.dropWhile_cons, hx.2.2.1]
    have e2 : (some ['>'] : Option Str) = some (cmprText .gt) := rfl
    simp only [hasBracket, Bool.false_eq_true, ↓reduceIte, List.any_cons, beq_self_eq_true,
      Bool.or_true, Bool.true_or, List.isPrefixOf, Bool.and_true, hvx, e, e2, snykTail_cmpr]
  · have e : lstripSet ['['] ('[' :: x :: t) = x :: t := by
      unfold lstripSet
      simp [List.dropWhile_cons, hx.1]
    have e2 : (some ['>', '='] : Option Str) = some (cmprText .ge) := rfl
    have e3 : ('(' == '[') = false := by decide
    simp only [hasBracket, ↓reduceIte, List.any_cons, beq_self_eq_true, e3,
      Bool.or_true, Bool.true_or, List.isPrefixOf, Bool.and_true, hvx, e, e2, snykTail_cmpr,
      Bool.false_and, Bool.false_eq_true]

theorem isSuffixOf_snoc (a b : Char) (l : Str) : [a].isSuffixOf (l ++ [b]) = (a == b) := by
  simp [List.isSuffixOf, List.isPrefixOf]

/-- `v]` and `v)` -/
theorem snykConstraint_upper (mk : Str → Except TErr Str) (closed : Bool) (v : Str)
    (hv : safeV snykDict snykBad v = true) :
    snykConstraint mk (v ++ [if closed then ']' else ')']) =
      constraintsOf mk [(if closed then Cmpr.le else Cmpr.lt, v)] := by
  obtain ⟨hws, hnb⟩ := safeV_snyk_no_bracket hv
  obtain ⟨x, t, hvx, _, _⟩ := safeV_cons hv
  have hx := hnb x (by rw [hvx]; simp)
  obtain ⟨a, z, hz⟩ := exists_snoc v (by rw [hvx]; simp)
  have hzn := hnb z (by rw [hz]; simp)
  have hclean : ∀ c ∈ v ++ [if closed then ']' else ')'], isPySpace c = false := by
    intro c hc
    rcases List.mem_append.mp hc with h | h
    · exact hws c h
    · simp only [List.mem_singleton] at h; subst h; cases closed <;> decide
  have hbr : hasBracket (v ++ [if closed then ']' else ')']) = true := by
    unfold hasBracket
    rw [List.any_append]
    cases closed <;> simp
  rw [snykConstraint_eq]
  unfold splitReqBracket
  rw [removeSpaces_clean _ hclean, stripWs_clean _ hclean]
  have p1 : ['('].isPrefixOf (v ++ [if closed then ']' else ')']) = false := by
    rw [hvx]; simp [List.isPrefixOf, Ne.symm hx.2.2.1]
  have p2 : ['['].isPrefixOf (v ++ [if closed then ']' else ')']) = false := by
    rw [hvx]; simp [List.isPrefixOf, Ne.symm hx.1]
  simp only [hbr, ↓reduceIte, p1, p2, Bool.false_eq_true, isSuffixOf_snoc]
  cases closed
  · have e : rstripSet [')'] (v ++ [')']) = v := by
      rw [rstripSet_append_all _ _ _ (by simp), hz, rstripSet_last _ _ _ (by simp [hzn.2.2.2])]
    have e2 : (some ['<'] : Option Str) = some (cmprText .lt) := rfl
    simp only [Bool.false_eq_true, ↓reduceIte, beq_self_eq_true, e, e2]
    rw [hvx]; exact snykTail_cmpr mk _ x t
  · have e : rstripSet [']'] (v ++ [']']) = v := by
      rw [rstripSet_append_all _ _ _ (by simp), hz, rstripSet_last _ _ _ (by simp [hzn.2.1])]
    have e2 : (some ['<', '='] : Option Str) = some (cmprText .le) := rfl
    have e3 : (')' == ']') = false := by decide
    simp only [↓reduceIte, beq_self_eq_true, e, e2, e3, Bool.false_eq_true]
    rw [hvx]; exact snykTail_cmpr mk _ x t

/-- a lone bracket states nothing -/
theorem snykConstraint_void (mk : Str → Except TErr Str) (b : Char)
    (hb : b = '(' ∨ b = '[' ∨ b = ')' ∨ b = ']') : snykConstraint mk [b] = .ok [] := by
  rcases hb with h | h | h | h <;> subst h <;> rfl

/-! #### texts of pieces -/

theorem Item.removeSpaces_text {d : Dict} {bad : Str} (hk : keysOk d bad = true) {i : Item}
    (hi : i.WF d bad) : removeSpaces i.text = i.tight := by
  obtain ⟨hsp, hpre, hmid, hpost, hv⟩ := hi
  obtain ⟨x, t, hvx, hx, hvall⟩ := safeV_cons hv
  obtain ⟨_, hkall⟩ := keysOk_mem hk hsp
  simp only [Item.text, Item.tight, removeSpaces_append, removeSpaces_ws _ hpre,
    removeSpaces_ws _ hmid, removeSpaces_ws _ hpost,
    removeSpaces_clean _ (fun c hc => (hkall c hc).1),
    removeSpaces_clean _ (fun c hc => (hvall c hc).1), List.nil_append, List.append_nil]

/-- the item without its optional whitespace -/
def Item.squeeze (i : Item) : Item := { i with pre := [], mid := [], post := [] }

theorem Item.squeeze_text (i : Item) : i.squeeze.text = i.tight := by
  simp [Item.squeeze, Item.text, Item.tight]

theorem Item.squeeze_WF {d : Dict} {bad : Str} {i : Item} (hi : i.WF d bad) : i.squeeze.WF d bad :=
  ⟨hi.1, rfl, rfl, rfl, hi.2.2.2.2⟩

theorem Piece.removeSpaces_text {p : Piece} (hp : p.WF) : removeSpaces p.text = p.tight := by
  cases p with
  | cmp i => exact Item.removeSpaces_text keysOk_snyk hp
  | lower closed pre mid v post =>
    obtain ⟨h1, h2, h3, hv⟩ := hp
    have hb : isPySpace (if closed then '[' else '(') = false := by cases closed <;> decide
    simp only [Piece.text, Piece.tight, removeSpaces_append, removeSpaces_ws _ h1,
      removeSpaces_ws _ h2, removeSpaces_ws _ h3, List.nil_append, List.append_nil,
      removeSpaces_clean _ (safeV_snyk_no_bracket hv).1]
    have : removeSpaces ((if closed then '[' else '(') :: (mid ++ (v ++ post))) =
        (if closed then '[' else '(') :: removeSpaces (mid ++ (v ++ post)) := by
      unfold removeSpaces; simp [List.filter_cons, hb]
    rw [this]
    simp only [removeSpaces_append, removeSpaces_ws _ h2, removeSpaces_ws _ h3, List.nil_append,
      List.append_nil, removeSpaces_clean _ (safeV_snyk_no_bracket hv).1]
  | upper closed pre v mid post =>
    obtain ⟨h1, h2, h3, hv⟩ := hp
    have hb : isPySpace (if closed then ']' else ')') = false := by cases closed <;> decide
    have : removeSpaces ((if closed then ']' else ')') :: post) =
        [if closed then ']' else ')'] := by
      unfold removeSpaces
      rw [List.filter_cons]
      simp only [hb, Bool.not_false, ↓reduceIte]
      have := removeSpaces_ws _ h3
      unfold removeSpaces at this
      rw [this]
    simp only [Piece.text, Piece.tight, removeSpaces_append, removeSpaces_ws _ h1,
      removeSpaces_ws _ h2, List.nil_append, this,
      removeSpaces_clean _ (safeV_snyk_no_bracket hv).1]
  | void b pre post =>
    obtain ⟨hb, h1, h2⟩ := hp
    have hbw : isPySpace b = false := by rcases hb with h | h | h | h <;> subst h <;> decide
    have : removeSpaces (b :: post) = [b] := by
      unfold removeSpaces
      rw [List.filter_cons]
      simp only [hbw, Bool.not_false, ↓reduceIte]
      have := removeSpaces_ws _ h2
      unfold removeSpaces at this
      rw [this]
    simp only [Piece.text, Piece.tight, removeSpaces_append, removeSpaces_ws _ h1, List.nil_append,
      this]

theorem snykConstraint_tight (mk : Str → Except TErr Str) {p : Piece} (hp : p.WF) :
    snykConstraint mk p.tight = constraintsOf mk p.pairs := by
  cases p with
  | cmp i =>
    have := snykConstraint_item mk i.squeeze (Item.squeeze_WF hp)
    rw [Item.squeeze_text] at this
    exact this
  | lower closed pre mid v post => exact snykConstraint_lower mk closed v hp.2.2.2
  | upper closed pre v mid post => exact snykConstraint_upper mk closed v hp.2.2.2
  | void b pre post => exact snykConstraint_void mk b hp.1

/-- what one piece, with its optional whitespace, gives -/
theorem snykConstraint_piece (mk : Str → Except TErr Str) {p : Piece} (hp : p.WF) :
    snykConstraint mk p.text = constraintsOf mk p.pairs := by
  rw [← snykConstraint_removeSpaces, Piece.removeSpaces_text hp, snykConstraint_tight mk hp]

/-- the tight text of a piece: not empty, no whitespace, no comma -/
theorem Piece.tight_clean {p : Piece} (hp : p.WF) :
    p.tight ≠ [] ∧ ∀ c ∈ p.tight, isPySpace c = false ∧ c ≠ ',' := by
  have hvclean : ∀ v, safeV snykDict snykBad v = true → ∀ c ∈ v, isPySpace c = false ∧ c ≠ ',' := by
    intro v hv c hc
    obtain ⟨_, _, _, _, hall⟩ := safeV_cons hv
    refine ⟨(hall c hc).1, fun h => (hall c hc).2 (by simp [h, snykBad])⟩
  cases p with
  | cmp i =>
    obtain ⟨hsp, _, _, _, hv⟩ := hp
    obtain ⟨hne, hkall⟩ := keysOk_mem keysOk_snyk hsp
    refine ⟨by simp only [Piece.tight, Item.tight]; simp [hne], ?_⟩
    intro c hc
    simp only [Piece.tight, Item.tight, List.mem_append] at hc
    rcases hc with h | h
    · exact ⟨(hkall c h).1, fun e => (hkall c h).2 (by simp [e, snykBad])⟩
    · exact hvclean _ hv c h
  | lower closed pre mid v post =>
    refine ⟨by simp [Piece.tight], ?_⟩
    intro c hc
    simp only [Piece.tight, List.mem_cons] at hc
    rcases hc with h | h
    · subst h; cases closed <;> exact ⟨by decide, by decide⟩
    · exact hvclean _ hp.2.2.2 c h
  | upper closed pre v mid post =>
    refine ⟨by simp [Piece.tight], ?_⟩
    intro c hc
    simp only [Piece.tight, List.mem_append, List.mem_singleton] at hc
    rcases hc with h | h
    · exact hvclean _ hp.2.2.2 c h
    · subst h; cases closed <;> exact ⟨by decide, by decide⟩
  | void b pre post =>
    refine ⟨by simp [Piece.tight], ?_⟩
    intro c hc
    simp only [Piece.tight, List.mem_singleton] at hc
    subst hc
    rcases hp.1 with h | h | h | h <;> subst h <;> exact ⟨by decide, by decide⟩

theorem mem_of_mem_removeSpaces_or {c : Char} {s : Str} (hc : c ∈ s) :
    isPySpace c = true ∨ c ∈ removeSpaces s := by
  cases h : isPySpace c with
  | true => exact Or.inl rfl
  | false =>
    right
    unfold removeSpaces
    exact List.mem_filter.mpr ⟨hc, by simp [h]⟩

theorem Piece.no_comma_text {p : Piece} (hp : p.WF) : ',' ∉ p.text := by
  intro h
  rcases mem_of_mem_removeSpaces_or h with h | h
  · exact absurd h (by decide)
  · rw [Piece.removeSpaces_text hp] at h
    exact ((Piece.tight_clean hp).2 _ h).2 rfl

/-! #### splitting a Snyk string -/

theorem splitOn_filter (sep : Char) (p : Char → Bool) (hp : p sep = true) :
    ∀ (s : Str), (splitOn sep s).map (List.filter p) = splitOn sep (s.filter p)
  | [] => rfl
  | c :: cs => by
    have ih := splitOn_filter sep p hp cs
    by_cases hc : (c == sep) = true
    · have : c = sep := beq_iff_eq.mp hc
      subst this
      simp only [List.filter_cons, hp, ↓reduceIte]
      rw [splitOn, splitOn]
      simp [ih]
    · have hc' : (c == sep) = false := by simpa using hc
      obtain ⟨h, t, hs⟩ : ∃ h t, splitOn sep cs = h :: t := by
        cases e : splitOn sep cs with
        | nil => exact absurd e (splitOn_ne_nil sep cs)
        | cons h t => exact ⟨h, t, rfl⟩
      rw [splitOn_cons_of_ne sep c cs h t hc' hs]
      rw [hs] at ih
      simp only [List.map_cons] at ih
      by_cases hpc : p c = true
      · simp only [List.map_cons, List.filter_cons, hpc, ↓reduceIte]
        exact (splitOn_cons_of_ne sep c _ _ _ hc' ih.symm).symm
      · simp only [List.map_cons, List.filter_cons, hpc, Bool.false_eq_true, ↓reduceIte]
        exact ih

theorem filter_dropWhile {α : Type} (p q : α → Bool) (h : ∀ x, q x = true → p x = false) :
    ∀ (l : List α), (l.dropWhile q).filter p = l.filter p
  | [] => rfl
  | x :: l => by
    by_cases hq : q x = true
    · simp [List.dropWhile_cons, hq, List.filter_cons, h x hq, filter_dropWhile p q h l]
    · simp [List.dropWhile_cons, hq]

theorem removeSpaces_stripWs (s : Str) : removeSpaces (stripWs s) = removeSpaces s := by
  unfold removeSpaces stripWs
  have h : ∀ x, isPySpace x = true → (!isPySpace x) = false := by intro x hx; simp [hx]
  rw [List.filter_reverse, filter_dropWhile _ _ h, List.filter_reverse, List.reverse_reverse,
    filter_dropWhile _ _ h]

theorem removeSpaces_nospace (s : Str) : removeSpaces (s.filter (fun c => c != ' ')) = removeSpaces s := by
  unfold removeSpaces
  rw [List.filter_filter]
  congr 1
  funext c
  by_cases h : c = ' '
  · subst h; decide
  · simp [h]

/-- the comma branch: as if the string were split at the commas -/
theorem collect_snyk_comma (mk : Str → Except TErr Str) (s : Str) :
    collect (snykConstraint mk) (splitOn ',' ((stripWs s).filter (fun c => c != ' '))) =
      collect (snykConstraint mk) (splitOn ',' s) := by
  have key : ∀ (xs : List Str), collect (snykConstraint mk) xs =
      collect (snykConstraint mk) (xs.map removeSpaces) := by
    intro xs
    rw [collect_map]
    exact collect_congr _ _ xs (fun x _ => (snykConstraint_removeSpaces mk x).symm)
  have hsep : (fun c => !isPySpace c) ',' = true := by decide
  rw [key, key (splitOn ',' s)]
  have e1 := splitOn_filter ',' (fun c => !isPySpace c) hsep
  unfold removeSpaces at *
  rw [e1, e1]
  have := removeSpaces_nospace (stripWs s)
  unfold removeSpaces at this
  rw [this]
  have := removeSpaces_stripWs s
  unfold removeSpaces at this
  rw [this]

theorem joinWith_cons_mem (sep : Char) : ∀ (a b : Str) (ts : List Str),
    sep ∈ joinWith sep (a :: b :: ts) := by
  intro a b ts
  simp [joinWith]

/-- (a) one Snyk string in the comma form -/
theorem snyk_comma_string (mk : Str → Except TErr Str) (ps : List Piece)
    (hlen : 2 ≤ ps.length) (hp : ∀ p ∈ ps, p.WF) :
    collect (snykConstraint mk) (snykSplit (renderSnykComma ps)) =
      constraintsOf mk (ps.flatMap Piece.pairs) := by
  have hcomma : (renderSnykComma ps).contains ',' = true := by
    unfold renderSnykComma
    match ps, hlen with
    | a :: b :: r, _ =>
      simp only [List.map_cons, List.contains_iff_mem]
      exact joinWith_cons_mem ',' _ _ _
  unfold snykSplit
  simp only [hcomma, ↓reduceIte]
  rw [collect_snyk_comma]
  unfold renderSnykComma
  rw [splitOn_joinWith ',' (ps.map Piece.text)
    (by cases ps with
        | nil => simp at hlen
        | cons a r => simp)
    (by intro t ht; obtain ⟨p, hpm, rfl⟩ := List.mem_map.mp ht; exact Piece.no_comma_text (hp p hpm))]
  rw [collect_map]
  exact collect_eq_constraintsOf mk _ Piece.pairs ps (fun p hpm => snykConstraint_piece mk (hp p hpm))

theorem stripWs_core (lead J trail : Str) (hl : allWs lead = true) (ht : allWs trail = true)
    (a : Char) (rest : Str) (hJ : J = a :: rest) (ha : isPySpace a = false)
    (b : Str) (z : Char) (hJ2 : J = b ++ [z]) (hz : isPySpace z = false) :
    stripWs (lead ++ (J ++ trail)) = J := by
  unfold stripWs
  rw [dropWhile_append_all _ _ _ (fun c hc => List.all_eq_true.mp hl c hc)]
  rw [hJ, List.cons_append, dropWhile_of_head _ _ _ ha, ← List.cons_append, ← hJ]
  rw [List.reverse_append,
    dropWhile_append_all _ _ _ (fun c hc => List.all_eq_true.mp ht c (List.mem_reverse.mp hc))]
  rw [hJ2, List.reverse_append]
  simp only [List.reverse_cons, List.reverse_nil, List.nil_append, List.cons_append]
  rw [dropWhile_of_head _ _ _ hz]
  simp

theorem joinWith_snoc (sep : Char) (t : Str) : ∀ (us : List Str), ∃ pre, joinWith sep (us ++ [t]) = pre ++ t
  | [] => ⟨[], rfl⟩
  | [u] => ⟨u ++ [sep], by simp [joinWith]⟩
  | u :: w :: us => by
    obtain ⟨pre, h⟩ := joinWith_snoc sep t (w :: us)
    refine ⟨u ++ sep :: pre, ?_⟩
    simp only [List.cons_append, joinWith] at h ⊢
    rw [h]
    simp

theorem joinWith_head (sep a : Char) (t : Str) : ∀ (ts : List Str), ∃ rest, joinWith sep ((a :: t) :: ts) = a :: rest
  | [] => ⟨t, rfl⟩
  | u :: ts => ⟨t ++ sep :: joinWith sep (u :: ts), by simp only [joinWith, List.cons_append]⟩

/-- (a) one Snyk string in the space form -/
theorem snyk_space_string (mk : Str → Except TErr Str) (lead trail : Str) (ps : List Piece)
    (hne : ps ≠ []) (hl : allWs lead = true) (ht : allWs trail = true) (hp : ∀ p ∈ ps, p.WF) :
    collect (snykConstraint mk) (snykSplit (renderSnykSpace lead trail ps)) =
      constraintsOf mk (ps.flatMap Piece.pairs) := by
  have hclean : ∀ t ∈ ps.map Piece.tight, t ≠ [] ∧ ∀ c ∈ t, isPySpace c = false ∧ c ≠ ',' := by
    intro t ht
    obtain ⟨p, hpm, rfl⟩ := List.mem_map.mp ht
    exact Piece.tight_clean (hp p hpm)
  have hws : ∀ s, allWs s = true → ',' ∉ s := by
    intro s hs hm
    have := List.all_eq_true.mp hs _ hm
    exact absurd this (by decide)
  -- no comma
  have hnc : (renderSnykSpace lead trail ps).contains ',' = false := by
    rw [Bool.eq_false_iff]
    intro h
    have h := List.contains_iff_mem.mp h
    unfold renderSnykSpace at h
    simp only [List.mem_append] at h
    rcases h with h | h | h
    · exact hws _ hl h
    · have : ∀ (ts : List Str), (∀ t ∈ ts, ∀ c ∈ t, c ≠ ',') → ',' ∉ joinWith ' ' ts := by
        intro ts
        induction ts with
        | nil => intro _ hm; simp [joinWith] at hm
        | cons a r ih =>
          intro hall hm
          cases r with
          | nil => exact hall a (by simp) _ hm rfl
          | cons b r =>
            simp only [joinWith, List.mem_append, List.mem_cons] at hm
            rcases hm with hm | hm | hm
            · exact hall a (by simp) _ hm rfl
            · exact absurd hm (by decide)
            · exact ih (fun t ht => hall t (by simp [ht])) hm
      exact this _ (fun t ht c hc => ((hclean t ht).2 c hc).2) h
    · exact hws _ ht h
  -- the core of the string
  obtain ⟨p0, pr, hps⟩ : ∃ p0 pr, ps = p0 :: pr := by
    cases ps with
    | nil => exact absurd rfl hne
    | cons a r => exact ⟨a, r, rfl⟩
  obtain ⟨us, pz, hps2⟩ := exists_snoc ps hne
  have h0 := hclean p0.tight (by rw [hps]; simp)
  have hz := hclean pz.tight (by rw [hps2]; simp)
  obtain ⟨a, t0, ht0⟩ : ∃ a t0, p0.tight = a :: t0 := by
    cases e : p0.tight with
    | nil => exact absurd e h0.1
    | cons a t0 => exact ⟨a, t0, rfl⟩
  obtain ⟨bz, z, hbz⟩ := exists_snoc pz.tight hz.1
  obtain ⟨rest, hJ⟩ := joinWith_head ' ' a t0 (pr.map Piece.tight)
  obtain ⟨pre, hJ2⟩ := joinWith_snoc ' ' pz.tight (us.map Piece.tight)
  have hJ' : joinWith ' ' (ps.map Piece.tight) = a :: rest := by
    rw [hps, List.map_cons, ht0, hJ]
  have hJ2' : joinWith ' ' (ps.map Piece.tight) = (pre ++ bz) ++ [z] := by
    rw [hps2, List.map_append, List.map_cons, List.map_nil, hJ2, hbz, List.append_assoc]
  have hcore := stripWs_core lead _ trail hl ht a rest hJ' (h0.2 a (by rw [ht0]; simp)).1
    (pre ++ bz) z hJ2' (hz.2 z (by rw [hbz]; simp)).1
  unfold snykSplit
  simp only [hnc, Bool.false_eq_true, ↓reduceIte]
  unfold renderSnykSpace
  rw [hcore]
  rw [splitOn_joinWith ' ' (ps.map Piece.tight) (by rw [hps]; simp)
    (by intro t ht hm; exact absurd ((hclean t ht).2 _ hm).1 (by decide))]
  rw [collect_map]
  exact collect_eq_constraintsOf mk _ Piece.pairs ps (fun p hpm => snykConstraint_tight mk (hp p hpm))

/-- (a) Snyk: a list of strings, each in the comma form (comparators and/or brackets, at least
two pieces) or in the space form, converts to exactly the constraints stated. -/
theorem snyk_exact (mk : Str → Except TErr Str) (ss : List SnykStr) (h : ∀ s ∈ ss, s.WF) :
    snykItems mk (ss.map SnykStr.text) = constraintsOf mk (snykAst ss) := by
  unfold snykItems snykAst
  rw [collect_map, List.flatMap_assoc]
  apply collect_eq_constraintsOf mk _ (fun s => s.pieces.flatMap Piece.pairs) ss
  intro s hs
  cases s with
  | comma ps => exact snyk_comma_string mk ps (h _ hs).1 (h _ hs).2
  | space lead trail ps =>
    obtain ⟨h1, h2, h3, h4⟩ := h _ hs
    exact snyk_space_string mk lead trail ps h1 h2 h3 h4

theorem snyk_exact_scheme (mkVerOf : String → Str → Except TErr Str) (scheme cls vc : String)
    (hs : rangeClassOf scheme = some cls) (hv : versionClassOf cls = some vc)
    (ss : List SnykStr) (h : ∀ s ∈ ss, s.WF) :
    fromSnyk mkVerOf scheme (ss.map SnykStr.text) = constraintsOf (mkVerOf vc) (snykAst ss) := by
  unfold fromSnyk verOfScheme
  simp only [hs, hv]
  exact snyk_exact _ ss h

/-! ### (c) the notations agree -/

theorem github_sub_snyk : ∀ kv ∈ githubDict, kv ∈ snykDict := by decide
theorem snykChars_sub_github : ∀ c ∈ cmpChars snykDict, c ∈ cmpChars githubDict := by decide

theorem Item.WF_github_of {i : Item} (h : i.WF githubDict snykBad) : i.WF githubDict githubBad := by
  obtain ⟨h1, h2, h3, h4, hv⟩ := h
  refine ⟨h1, h2, h3, h4, ?_⟩
  obtain ⟨x, t, hvx, hx, hall⟩ := safeV_cons hv
  rw [hvx] at hall ⊢
  simp only [safeV, Bool.and_eq_true, Bool.not_eq_true', List.all_eq_true]
  refine ⟨fun c hc => ?_, by simpa using hx⟩
  have := hall c hc
  simp only [Bool.and_eq_true, Bool.not_eq_true', this.1, true_and]
  cases e : githubBad.contains c with
  | false => rfl
  | true =>
    have : c = ',' := by simpa [githubBad] using e
    exact absurd (by simp [this, snykBad]) (hall c hc).2

theorem Item.WF_snyk_of {i : Item} (h : i.WF githubDict snykBad) : i.WF snykDict snykBad := by
  obtain ⟨h1, h2, h3, h4, hv⟩ := h
  refine ⟨github_sub_snyk _ h1, h2, h3, h4, ?_⟩
  obtain ⟨x, t, hvx, hx, hall⟩ := safeV_cons hv
  rw [hvx] at hall ⊢
  simp only [safeV, Bool.and_eq_true, Bool.not_eq_true', List.all_eq_true]
  refine ⟨fun c hc => ?_, ?_⟩
  · have := hall c hc
    simp only [Bool.and_eq_true, Bool.not_eq_true', this.1, true_and]
    cases e : snykBad.contains c with
    | false => rfl
    | true => exact absurd (by simpa using e) this.2
  · cases e : (cmpChars snykDict).contains x with
    | false => rfl
    | true => exact absurd (snykChars_sub_github x (by simpa using e)) hx

theorem astOf_eq_snykAst_comma (gs : List (List Item)) :
    snykAst (gs.map (fun g => SnykStr.comma (g.map Piece.cmp))) = astOf gs := by
  unfold snykAst astOf
  induction gs with
  | nil => rfl
  | cons g gs ih =>
    simp only [List.map_cons, List.flatMap_cons, List.flatMap_append, List.flatten_cons,
      List.map_append, ih, SnykStr.pieces]
    congr 1
    induction g with
    | nil => rfl
    | cons a l ih2 => simp [List.flatMap_cons, Piece.pairs, ih2]

theorem astOf_eq_snykAst_space (gs : List (List Item)) :
    snykAst (gs.map (fun g => SnykStr.space [] [] (g.map Piece.cmp))) = astOf gs := by
  unfold snykAst astOf
  induction gs with
  | nil => rfl
  | cons g gs ih =>
    simp only [List.map_cons, List.flatMap_cons, List.flatMap_append, List.flatten_cons,
      List.map_append, ih, SnykStr.pieces]
    congr 1
    induction g with
    | nil => rfl
    | cons a l ih2 => simp [List.flatMap_cons, Piece.pairs, ih2]

/-- (c) the same expression written in the GitHub notation, in the Snyk comma notation and in the
Snyk space notation gives the same constraint list — the one the expression states.
(Spellings: the keys of the GitHub dictionary, which the Snyk dictionary shares; versions safe
for both notations; at least two pairs per string so that the comma form has a comma.) -/
theorem notations_agree (mk : Str → Except TErr Str) (gs : List (List Item))
    (h : ∀ g ∈ gs, 2 ≤ g.length ∧ ∀ i ∈ g, i.WF githubDict snykBad) :
    githubItems mk (renderGithub gs) = constraintsOf mk (astOf gs) ∧
    snykItems mk (gs.map (fun g => renderSnykComma (g.map Piece.cmp))) = constraintsOf mk (astOf gs) ∧
    snykItems mk (gs.map (fun g => renderSnykSpace [] [] (g.map Piece.cmp))) =
      constraintsOf mk (astOf gs) := by
  have hne : ∀ g ∈ gs, g ≠ [] := by
    intro g hg e
    have := (h g hg).1
    rw [e] at this
    simp at this
  refine ⟨?_, ?_, ?_⟩
  · exact github_exact mk gs (fun g hg => ⟨hne g hg, fun i hi => Item.WF_github_of ((h g hg).2 i hi)⟩)
  · have := snyk_exact mk (gs.map (fun g => SnykStr.comma (g.map Piece.cmp)))
      (by
        intro s hs
        obtain ⟨g, hg, rfl⟩ := List.mem_map.mp hs
        refine ⟨by simpa using (h g hg).1, ?_⟩
        intro p hp
        obtain ⟨i, hi, rfl⟩ := List.mem_map.mp hp
        exact Item.WF_snyk_of ((h g hg).2 i hi))
    rw [astOf_eq_snykAst_comma, List.map_map] at this
    exact this
  · have := snyk_exact mk (gs.map (fun g => SnykStr.space [] [] (g.map Piece.cmp)))
      (by
        intro s hs
        obtain ⟨g, hg, rfl⟩ := List.mem_map.mp hs
        refine ⟨by simpa using hne g hg, rfl, rfl, ?_⟩
        intro p hp
        obtain ⟨i, hi, rfl⟩ := List.mem_map.mp hp
        exact Item.WF_snyk_of ((h g hg).2 i hi))
    rw [astOf_eq_snykAst_space, List.map_map] at this
    exact this


/-! ### GitLab -/

theorem splitPipes_ne_nil : ∀ (s : Str), splitPipes s ≠ []
  | [] => by simp [splitPipes]
  | c :: rest => by
    unfold splitPipes
    split
    · simp
    · simp
    · split <;> simp

theorem splitPipes_cons_ne (c : Char) (rest h : Str) (tl : List Str) (hc : c ≠ '|')
    (hs : splitPipes rest = h :: tl) : splitPipes (c :: rest) = (c :: h) :: tl := by
  rw [splitPipes.eq_3 c rest (by intro r e _; exact hc e)]
  simp [hs]

theorem splitPipes_append (R h : Str) (tl : List Str) (hs : splitPipes R = h :: tl) :
    ∀ (t : Str), (∀ c ∈ t, c ≠ '|') → splitPipes (t ++ R) = (t ++ h) :: tl
  | [], _ => by simpa using hs
  | c :: t, ht => by
    rw [List.cons_append]
    exact splitPipes_cons_ne c _ _ _ (ht c (by simp))
      (splitPipes_append R h tl hs t (fun x hx => ht x (by simp [hx])))

theorem splitOn_append (sep : Char) (R h0 : Str) (tl0 : List Str) (hs : splitOn sep R = h0 :: tl0) :
    ∀ (t : Str), (∀ c ∈ t, c ≠ sep) → splitOn sep (t ++ R) = (t ++ h0) :: tl0
  | [], _ => by simpa using hs
  | c :: t, ht => by
    rw [List.cons_append]
    exact splitOn_cons_of_ne sep c _ _ _ (by simpa using ht c (by simp))
      (splitOn_append sep R h0 tl0 hs t (fun x hx => ht x (by simp [hx])))

theorem splitOn_sep_cons (sep : Char) (R : Str) : splitOn sep (sep :: R) = [] :: splitOn sep R := by
  rw [splitOn]; simp


/-- the lexical structure of a GitLab expression -/
inductive Atom where
  | tok (t : Str)
  | sep
  | pipes

def Atom.text (sep : Char) : Atom → Str
  | .tok t => t
  | .sep => [sep]
  | .pipes => ['|', '|']

def atomsText (sep : Char) (as : List Atom) : Str := as.flatMap (Atom.text sep)

def toks : List Atom → List Str
  | [] => []
  | .tok t :: r => t :: toks r
  | _ :: r => toks r

def headTok : List Atom → Str
  | .tok t :: _ => t
  | _ => []

def tailToks : List Atom → List Str
  | .tok _ :: r => toks r
  | as => toks as

/-- tokens are not empty, contain neither the separator nor a pipe, and are never adjacent -/
def AtomsOk (sep : Char) : List Atom → Prop
  | [] => True
  | .tok t :: r => t ≠ [] ∧ (∀ c ∈ t, c ≠ sep ∧ c ≠ '|') ∧ headTok r = [] ∧
      (match r with | .tok _ :: _ => False | _ => True) ∧ AtomsOk sep r
  | _ :: r => AtomsOk sep r

def nonEmpty (s : Str) : Bool := !s.isEmpty

theorem toks_eq (as : List Atom) (sep : Char) (h : AtomsOk sep as) :
    toks as = ([headTok as].filter nonEmpty) ++ tailToks as := by
  cases as with
  | nil => rfl
  | cons a r =>
    cases a with
    | tok t =>
      have : t ≠ [] := h.1
      cases t with
      | nil => exact absurd rfl this
      | cons x t => simp [toks, headTok, tailToks, nonEmpty]
    | sep => simp [toks, headTok, tailToks, nonEmpty]
    | pipes => simp [toks, headTok, tailToks, nonEmpty]

theorem toks_nonEmpty (sep : Char) : ∀ (as : List Atom), AtomsOk sep as → (toks as).filter nonEmpty = toks as
  | [], _ => rfl
  | .tok t :: r, h => by
    have : nonEmpty t = true := by
      cases t with
      | nil => exact absurd rfl h.1
      | cons _ _ => rfl
    simp only [toks, List.filter_cons, this, ↓reduceIte]
    rw [toks_nonEmpty sep r h.2.2.2.2]
  | .sep :: r, h => by simpa [toks] using toks_nonEmpty sep r h
  | .pipes :: r, h => by simpa [toks] using toks_nonEmpty sep r h

/-- the invariant of the two nested splits -/
theorem tokenize_inv (sep : Char) (hsep : sep ≠ '|') :
    ∀ (as : List Atom), AtomsOk sep as →
      ∃ h tl h0 tl0, splitPipes (atomsText sep as) = h :: tl ∧ splitOn sep h = h0 :: tl0 ∧
        h0 = headTok as ∧
        (tl0 ++ tl.flatMap (splitOn sep)).filter nonEmpty = tailToks as
  | [], _ => ⟨[], [], [], [], rfl, rfl, rfl, rfl⟩
  | .tok t :: r, hok => by
    obtain ⟨h, tl, h0, tl0, e1, e2, e3, e4⟩ := tokenize_inv sep hsep r hok.2.2.2.2
    refine ⟨t ++ h, tl, t ++ h0, tl0, ?_, ?_, ?_, ?_⟩
    · simp only [atomsText, List.flatMap_cons, Atom.text]
      exact splitPipes_append _ h tl e1 t (fun c hc => (hok.2.1 c hc).2)
    · exact splitOn_append sep h h0 tl0 e2 t (fun c hc => (hok.2.1 c hc).1)
    · rw [e3, hok.2.2.1]; simp [headTok]
    · rw [e4]
      have := hok.2.2.2.1
      cases r with
      | nil => rfl
      | cons a r' =>
        cases a with
        | tok _ => exact absurd this (by simp)
        | sep => rfl
        | pipes => rfl
  | .sep :: r, hok => by
    have hok' : AtomsOk sep r := hok
    obtain ⟨h, tl, h0, tl0, e1, e2, e3, e4⟩ := tokenize_inv sep hsep r hok'
    refine ⟨sep :: h, tl, [], h0 :: tl0, ?_, ?_, rfl, ?_⟩
    · simp only [atomsText, List.flatMap_cons, Atom.text, List.cons_append, List.nil_append]
      exact splitPipes_cons_ne sep _ h tl hsep e1
    · rw [splitOn_sep_cons, e2]
    · have ht : tailToks (Atom.sep :: r) = toks r := rfl
      rw [ht, toks_eq r sep hok', ← e4, ← e3]
      simp only [List.cons_append, List.filter_cons, List.filter_nil]
      cases nonEmpty h0 <;> simp
  | .pipes :: r, hok => by
    have hok' : AtomsOk sep r := hok
    obtain ⟨h, tl, h0, tl0, e1, e2, e3, e4⟩ := tokenize_inv sep hsep r hok'
    refine ⟨[], h :: tl, [], [], ?_, rfl, rfl, ?_⟩
    · simp only [atomsText, List.flatMap_cons, Atom.text, List.cons_append, List.nil_append]
      rw [splitPipes.eq_2]
      exact congrArg _ e1
    · have ht : tailToks (Atom.pipes :: r) = toks r := rfl
      rw [ht, toks_eq r sep hok', ← e4, ← e3]
      simp only [List.nil_append, List.flatMap_cons, e2, List.cons_append, List.filter_cons,
        List.filter_nil]
      cases nonEmpty h0 <;> simp

/-- the non-empty `constraint_items` are the tokens -/
theorem tokenize (sep : Char) (hsep : sep ≠ '|') (as : List Atom) (hok : AtomsOk sep as) :
    (gitlabItems sep (atomsText sep as)).filter nonEmpty = toks as := by
  obtain ⟨h, tl, h0, tl0, e1, e2, e3, e4⟩ := tokenize_inv sep hsep as hok
  unfold gitlabItems
  rw [e1, List.flatMap_cons, e2, List.cons_append, List.filter_cons, e4, e3, toks_eq as sep hok]
  simp only [List.filter_cons, List.filter_nil]
  cases nonEmpty (headTok as) <;> simp

theorem gitlabLoop_nil_item (mk : Str → Except TErr Str) (d : Dict) (st : Option Str) (rest : List Str) :
    gitlabLoop mk d st ([] :: rest) = gitlabLoop mk d st rest := by
  simp [gitlabLoop]
theorem gitlabLoop_none (mk : Str → Except TErr Str) (d : Dict) (item : Str) (rest : List Str)
    (hne : item ≠ []) : gitlabLoop mk d none (item :: rest) = .error .TypeError := by
  cases item with
  | nil => exact absurd rfl hne
  | cons x t => simp [gitlabLoop]

theorem gitlabLoop_key (mk : Str → Except TErr Str) (d : Dict) (c item : Str) (rest : List Str)
    (v : Str) (hne : item ≠ []) (h : d.lookup (c ++ item) = some (some v)) :
    gitlabLoop mk d (some c) (item :: rest) = gitlabLoop mk d (some v) rest := by
  cases item with
  | nil => exact absurd rfl hne
  | cons x t => simp [gitlabLoop, h]

/-- a dictionary entry whose value is `None`: `raise ValueError` -/
theorem gitlabLoop_noneval (mk : Str → Except TErr Str) (d : Dict) (c item : Str) (rest : List Str)
    (hne : item ≠ []) (h : d.lookup (c ++ item) = some none) :
    gitlabLoop mk d (some c) (item :: rest) = .error .ValueError := by
  cases item with
  | nil => exact absurd rfl hne
  | cons x t => simp [gitlabLoop, h]

theorem gitlabLoop_ver (mk : Str → Except TErr Str) (d : Dict) (c item : Str) (rest : List Str)
    (hne : item ≠ []) (h : d.lookup (c ++ item) = none) :
    gitlabLoop mk d (some c) (item :: rest) =
      match (if !c.isEmpty then buildCon mk (some c) item
            else match splitReq item d (some ['=']) [] with
              | .error e => .error e
              | .ok (c', v) => buildCon mk c' v) with
      | .error e => .error e
      | .ok k => match gitlabLoop mk d (some []) rest with
        | .error e => .error e
        | .ok ks => .ok (k :: ks) := by
  cases item with
  | nil => exact absurd rfl hne
  | cons x t =>
    simp only [gitlabLoop, List.isEmpty_cons, Bool.false_eq_true, ↓reduceIte, h]
    rfl

/-- empty items are skipped -/
theorem gitlabLoop_filter (mk : Str → Except TErr Str) (d : Dict) :
    ∀ (items : List Str) (st : Option Str),
      gitlabLoop mk d st items = gitlabLoop mk d st (items.filter nonEmpty)
  | [], _ => rfl
  | item :: rest, st => by
    cases item with
    | nil =>
      rw [gitlabLoop_nil_item]
      simp only [List.filter_cons, nonEmpty, List.isEmpty_nil, Bool.not_true, Bool.false_eq_true,
        ↓reduceIte]
      exact gitlabLoop_filter mk d rest st
    | cons x t =>
      simp only [List.filter_cons, nonEmpty, List.isEmpty_cons, Bool.not_false, ↓reduceIte]
      cases st with
      | none => rw [gitlabLoop_none _ _ _ _ (by simp), gitlabLoop_none _ _ _ _ (by simp)]
      | some c =>
        cases hl : d.lookup (c ++ x :: t) with
        | some v =>
          cases v with
          | none =>
            rw [gitlabLoop_noneval _ _ _ _ _ (by simp) hl, gitlabLoop_noneval _ _ _ _ _ (by simp) hl]
          | some v =>
            rw [gitlabLoop_key _ _ _ _ _ _ (by simp) hl, gitlabLoop_key _ _ _ _ _ _ (by simp) hl]
            exact gitlabLoop_filter mk d rest (some v)
        | none =>
          rw [gitlabLoop_ver _ _ _ _ _ (by simp) hl, gitlabLoop_ver _ _ _ _ _ (by simp) hl,
            gitlabLoop_filter mk d rest (some [])]

/-! #### from a rendering to atoms -/

def jointAtoms : Joint → List Atom
  | .seps n => List.replicate n .sep
  | .pipes a b => List.replicate a .sep ++ (.pipes :: List.replicate b .sep)

def itemAtoms (sep : Char) : GItem → List Atom
  | .glued i => [.tok i.text]
  | .apart _ key gap v => .tok key :: (List.replicate (gap + 1) .sep ++ [.tok v])

def itemToks : GItem → List Str
  | .glued i => [i.text]
  | .apart _ key _ v => [key, v]

def atomsOf (sep : Char) (first : Joint) : List (GItem × Joint) → List Atom
  | [] => jointAtoms first
  | (i, j) :: rest => jointAtoms first ++ (itemAtoms sep i ++ atomsOf sep j rest)

theorem atomsText_append (sep : Char) (a b : List Atom) :
    atomsText sep (a ++ b) = atomsText sep a ++ atomsText sep b := by
  simp [atomsText]

theorem atomsText_seps (sep : Char) : ∀ (n : Nat), atomsText sep (List.replicate n .sep) = List.replicate n sep
  | 0 => rfl
  | n + 1 => by
    rw [List.replicate_succ, List.replicate_succ]
    have := atomsText_seps sep n
    simp only [atomsText, List.flatMap_cons, Atom.text] at this ⊢
    rw [this]; rfl

theorem atomsText_joint (sep : Char) (j : Joint) : atomsText sep (jointAtoms j) = j.text sep := by
  cases j with
  | seps n => exact atomsText_seps sep n
  | pipes a b =>
    simp only [jointAtoms, Joint.text, atomsText_append, atomsText_seps]
    have : atomsText sep (Atom.pipes :: List.replicate b Atom.sep) =
        '|' :: '|' :: atomsText sep (List.replicate b Atom.sep) := by
      simp [atomsText, Atom.text]
    rw [this, atomsText_seps]

theorem atomsText_item (sep : Char) (i : GItem) : atomsText sep (itemAtoms sep i) = i.text sep := by
  cases i with
  | glued i => simp [itemAtoms, atomsText, Atom.text, GItem.text]
  | apart c key gap v =>
    have h1 : atomsText sep (Atom.tok key :: (List.replicate (gap + 1) Atom.sep ++ [Atom.tok v])) =
        key ++ atomsText sep (List.replicate (gap + 1) Atom.sep ++ [Atom.tok v]) := by
      simp [atomsText, Atom.text]
    have h2 : atomsText sep [Atom.tok v] = v := by simp [atomsText, Atom.text]
    simp only [itemAtoms, GItem.text, h1, atomsText_append, atomsText_seps, h2]

theorem atomsText_atomsOf (sep : Char) :
    ∀ (items : List (GItem × Joint)) (first : Joint),
      atomsText sep (atomsOf sep first items) = renderGitlab sep first items
  | [], first => atomsText_joint sep first
  | (i, j) :: rest, first => by
    simp only [atomsOf, renderGitlab, atomsText_append, atomsText_joint, atomsText_item,
      atomsText_atomsOf sep rest j]

theorem toks_append (a b : List Atom) : toks (a ++ b) = toks a ++ toks b := by
  induction a with
  | nil => rfl
  | cons x a ih => cases x <;> simp [toks, ih]

theorem toks_seps : ∀ (n : Nat), toks (List.replicate n .sep) = []
  | 0 => rfl
  | n + 1 => by rw [List.replicate_succ]; simpa [toks] using toks_seps n

theorem toks_joint (j : Joint) : toks (jointAtoms j) = [] := by
  cases j with
  | seps n => exact toks_seps n
  | pipes a b => simp [jointAtoms, toks_append, toks_seps, toks]

theorem toks_item (sep : Char) (i : GItem) : toks (itemAtoms sep i) = itemToks i := by
  cases i with
  | glued i => rfl
  | apart c key gap v => simp [itemAtoms, itemToks, toks, toks_append, toks_seps]

theorem toks_atomsOf (sep : Char) :
    ∀ (items : List (GItem × Joint)) (first : Joint),
      toks (atomsOf sep first items) = items.flatMap (fun p => itemToks p.1)
  | [], first => toks_joint first
  | (i, j) :: rest, first => by
    simp only [atomsOf, toks_append, toks_joint, toks_item, toks_atomsOf sep rest j,
      List.nil_append, List.flatMap_cons]

def startsTok : List Atom → Prop
  | .tok _ :: _ => True
  | _ => False

theorem AtomsOk_tok (sep : Char) (t : Str) (r : List Atom) (h1 : t ≠ [])
    (h2 : ∀ c ∈ t, c ≠ sep ∧ c ≠ '|') (h3 : ¬ startsTok r) (h4 : AtomsOk sep r) :
    AtomsOk sep (.tok t :: r) := by
  refine ⟨h1, h2, ?_, ?_, h4⟩
  · cases r with
    | nil => rfl
    | cons a r => cases a <;> first | rfl | exact absurd trivial h3
  · cases r with
    | nil => trivial
    | cons a r => cases a <;> first | trivial | exact absurd trivial h3

theorem AtomsOk_seps (sep : Char) (as : List Atom) (h : AtomsOk sep as) :
    ∀ (n : Nat), AtomsOk sep (List.replicate n .sep ++ as)
  | 0 => by simpa using h
  | n + 1 => by
    rw [List.replicate_succ, List.cons_append]
    exact AtomsOk_seps sep as h n

theorem AtomsOk_joint (sep : Char) (j : Joint) (as : List Atom) (h : AtomsOk sep as) :
    AtomsOk sep (jointAtoms j ++ as) := by
  cases j with
  | seps n => exact AtomsOk_seps sep as h n
  | pipes a b =>
    simp only [jointAtoms, List.append_assoc, List.cons_append]
    apply AtomsOk_seps
    show AtomsOk sep (List.replicate b Atom.sep ++ as)
    exact AtomsOk_seps sep as h b

theorem not_startsTok_seps (as : List Atom) (h : ¬ startsTok as) :
    ∀ (n : Nat), ¬ startsTok (List.replicate n .sep ++ as)
  | 0 => by simpa using h
  | n + 1 => by rw [List.replicate_succ]; exact fun h => h

theorem not_startsTok_joint_nil (j : Joint) : ¬ startsTok (jointAtoms j) := by
  cases j with
  | seps n =>
    have := not_startsTok_seps [] (fun h => h) n
    simpa [jointAtoms] using this
  | pipes a b =>
    simp only [jointAtoms]
    exact not_startsTok_seps (Atom.pipes :: List.replicate b Atom.sep) (fun h => h) a

theorem not_startsTok_joint_sep (j : Joint) (hj : j.Separates) (as : List Atom) :
    ¬ startsTok (jointAtoms j ++ as) := by
  cases j with
  | seps n =>
    cases n with
    | zero => exact absurd hj (by simp [Joint.Separates])
    | succ n => simp only [jointAtoms, List.replicate_succ, List.cons_append]; exact fun h => h
  | pipes a b =>
    simp only [jointAtoms, List.append_assoc, List.cons_append]
    exact not_startsTok_seps (Atom.pipes :: (List.replicate b Atom.sep ++ as)) (fun h => h) a

/-- the conditions on the tokens of an item -/
def TokOk (sep : Char) (t : Str) : Prop := t ≠ [] ∧ ∀ c ∈ t, c ≠ sep ∧ c ≠ '|'

theorem AtomsOk_item (sep : Char) (i : GItem) (as : List Atom)
    (ht : ∀ t ∈ itemToks i, TokOk sep t) (h3 : ¬ startsTok as) (h4 : AtomsOk sep as) :
    AtomsOk sep (itemAtoms sep i ++ as) := by
  cases i with
  | glued i =>
    have := ht i.text (by simp [itemToks])
    exact AtomsOk_tok sep _ _ this.1 this.2 h3 h4
  | apart c key gap v =>
    have hk := ht key (by simp [itemToks])
    have hv := ht v (by simp [itemToks])
    simp only [itemAtoms, List.cons_append, List.append_assoc, List.nil_append]
    apply AtomsOk_tok sep _ _ hk.1 hk.2
    · rw [List.replicate_succ]; exact fun h => h
    · apply AtomsOk_seps
      exact AtomsOk_tok sep _ _ hv.1 hv.2 h3 h4

theorem AtomsOk_atomsOf (sep : Char) :
    ∀ (items : List (GItem × Joint)) (first : Joint),
      (∀ p ∈ items, ∀ t ∈ itemToks p.1, TokOk sep t) → JointsOk items →
      AtomsOk sep (atomsOf sep first items)
  | [], first, _, _ => by simpa [atomsOf] using AtomsOk_joint sep first [] trivial
  | (i, j) :: rest, first, ht, hj => by
    simp only [atomsOf]
    apply AtomsOk_joint
    apply AtomsOk_item sep i _ (ht (i, j) (by simp))
    · cases rest with
      | nil => exact not_startsTok_joint_nil j
      | cons r rest' =>
        obtain ⟨i', j'⟩ := r
        simp only [atomsOf]
        exact not_startsTok_joint_sep j hj.1 _
    · apply AtomsOk_atomsOf sep rest j (fun p hp => ht p (by simp [hp]))
      cases rest with
      | nil => trivial
      | cons r rest' => exact hj.2

/-! #### the token loop on the tokens of the items -/

theorem lookup_none_of_forall : ∀ (d : Dict) (t : Str), (∀ kv ∈ d, kv.1 ≠ t) → d.lookup t = none
  | [], _, _ => rfl
  | (k, v) :: d, t, h => by
    have hk : (t == k) = false := by
      have := h (k, v) (by simp)
      simpa using fun e => this e.symm
    simp only [List.lookup, hk]
    exact lookup_none_of_forall d t (fun kv hkv => h kv (by simp [hkv]))

theorem mem_of_lookup : ∀ (d : Dict) (k : Str) (v : Option Str), d.lookup k = some v → (k, v) ∈ d
  | [], _, _, h => by simp [List.lookup] at h
  | (k', v') :: d, k, v, h => by
    by_cases hk : (k == k') = true
    · simp only [List.lookup, hk] at h
      have e1 : k = k' := by simpa using hk
      have e2 : v' = v := by simpa using h
      simp [e1, e2]
    · have hk' : (k == k') = false := by simpa using hk
      simp only [List.lookup, hk'] at h
      exact List.mem_cons_of_mem _ (mem_of_lookup d k v h)

theorem not_key_of_mem {d : Dict} {t : Str} {x : Char} (hx : x ∈ t) (hn : x ∉ cmpChars d) :
    ∀ kv ∈ d, kv.1 ≠ t := by
  intro kv hkv e
  exact hn (mem_cmpChars hkv (e ▸ hx))

/-- the key of a glued item is read correctly by the dict order -/
def GItem.Fine (d : Dict) : GItem → Prop
  | .glued i => keyFine d i.key (some (cmprText i.c)) = true
  | .apart _ _ _ _ => True

theorem safeV_tokOk {d : Dict} {sep : Char} {v : Str} (hv : safeV d (gitlabBad sep) v = true) :
    TokOk sep v := by
  obtain ⟨x, t, hvx, _, hall⟩ := safeV_cons hv
  refine ⟨by rw [hvx]; simp, fun c hc => ?_⟩
  have := (hall c hc).2
  simp only [gitlabBad, List.mem_cons, List.not_mem_nil, or_false, not_or] at this
  exact this

theorem key_tokOk {d : Dict} {sep : Char} (hk : keysOk d (gitlabBad sep) = true) {k : Str}
    {v : Option Str} (hm : (k, v) ∈ d) : TokOk sep k := by
  obtain ⟨hne, hall⟩ := keysOk_mem hk hm
  refine ⟨hne, fun c hc => ?_⟩
  have := (hall c hc).2
  simp only [gitlabBad, List.mem_cons, List.not_mem_nil, or_false, not_or] at this
  exact this

theorem itemToks_ok {d : Dict} {sep : Char} (hk : keysOk d (gitlabBad sep) = true) {i : GItem}
    (hi : i.WF d sep) : ∀ t ∈ itemToks i, TokOk sep t := by
  cases i with
  | glued i =>
    obtain ⟨hwf, h1, h2, h3⟩ := hi
    intro t ht
    simp only [itemToks, List.mem_singleton] at ht
    subst ht
    obtain ⟨hsp, hpre, hmid, hpost, hv⟩ := hwf
    have hkt := key_tokOk hk hsp
    have hvt := safeV_tokOk hv
    have ws : ∀ s, allWs s = true → '|' ∉ s := by
      intro s hs hm
      exact absurd (List.all_eq_true.mp hs _ hm) (by decide)
    refine ⟨?_, ?_⟩
    · intro e
      have : i.key = [] := by
        simp only [Item.text, List.append_eq_nil_iff] at e
        exact e.2.1
      exact hkt.1 this
    · intro c hc
      simp only [Item.text, List.mem_append] at hc
      rcases hc with h | h | h | h | h
      · exact ⟨fun e => h1 (e ▸ h), fun e => ws _ hpre (e ▸ h)⟩
      · exact hkt.2 c h
      · exact ⟨fun e => h2 (e ▸ h), fun e => ws _ hmid (e ▸ h)⟩
      · exact hvt.2 c h
      · exact ⟨fun e => h3 (e ▸ h), fun e => ws _ hpost (e ▸ h)⟩
  | apart c key gap v =>
    obtain ⟨hl, hv⟩ := hi
    intro t ht
    simp only [itemToks, List.mem_cons, List.not_mem_nil, or_false] at ht
    rcases ht with h | h
    · subst h; exact key_tokOk hk (mem_of_lookup _ _ _ hl)
    · subst h; exact safeV_tokOk hv

theorem gitlabLoop_items (mk : Str → Except TErr Str) (d : Dict) (sep : Char)
    (hk : keysOk d (gitlabBad sep) = true) :
    ∀ (items : List (GItem × Joint)), (∀ p ∈ items, p.1.WF d sep ∧ p.1.Fine d) →
      gitlabLoop mk d (some []) (items.flatMap (fun p => itemToks p.1)) =
        constraintsOf mk (items.map (fun p => p.1.pair))
  | [], _ => rfl
  | (i, j) :: rest, h => by
    have ih := gitlabLoop_items mk d sep hk rest (fun p hp => h p (by simp [hp]))
    obtain ⟨hwf, hfine⟩ := h (i, j) (by simp)
    have htok := itemToks_ok hk hwf
    simp only [List.flatMap_cons, List.map_cons]
    cases i with
    | glued i =>
      have hne : i.text ≠ [] := (htok i.text (by simp [itemToks])).1
      obtain ⟨x, t, hvx, hx, _⟩ := safeV_cons hwf.1.2.2.2.2
      have hlook : d.lookup ([] ++ i.text) = none := by
        apply lookup_none_of_forall
        apply not_key_of_mem (x := x) _ hx
        simp [Item.text, hvx]
      have hsplit := splitReq_item d (some ['=']) [] (gitlabBad sep) (fun _ h => by simp at h) hk i
        [] [] hwf.1 hfine (by simp) (by simp)
      simp only [List.nil_append, List.append_nil] at hsplit
      have e1 : itemToks (GItem.glued i) = [i.text] := rfl
      rw [e1, List.cons_append, List.nil_append]
      rw [gitlabLoop_ver mk d [] i.text _ hne hlook, ih]
      simp only [List.isEmpty_nil, Bool.not_true, Bool.false_eq_true, ↓reduceIte, hsplit,
        buildCon_cmprText, GItem.pair, Item.pair, constraintsOf]
      cases mk i.v with
      | error e => rfl
      | ok v' => cases constraintsOf mk (List.map (fun p => p.1.pair) rest) <;> rfl
    | apart c key gap v =>
      obtain ⟨hl, hv⟩ := hwf
      have hkne := (htok key (by simp [itemToks])).1
      have hvne := (htok v (by simp [itemToks])).1
      obtain ⟨x, t, hvx, hx, _⟩ := safeV_cons hv
      have hlook : d.lookup (cmprText c ++ v) = none := by
        apply lookup_none_of_forall
        apply not_key_of_mem (x := x) _ hx
        simp [hvx]
      have e1 : itemToks (GItem.apart c key gap v) = [key, v] := rfl
      rw [e1, List.cons_append, List.cons_append, List.nil_append]
      rw [gitlabLoop_key mk d [] key _ _ hkne (by simpa using hl),
        gitlabLoop_ver mk d (cmprText c) v _ hvne hlook, ih]
      simp only [cmprText_ne_nil, Bool.not_false, ↓reduceIte, buildCon_cmprText, GItem.pair,
        constraintsOf]
      cases mk v with
      | error e => rfl
      | ok v' => cases constraintsOf mk (List.map (fun p => p.1.pair) rest) <;> rfl

/-- (a) GitLab, at the level of the token loop with the dictionary `d` of the range class -/
theorem gitlab_exact_dict (mk : Str → Except TErr Str) (d : Dict) (sep : Char) (hsep : sep ≠ '|')
    (hk : keysOk d (gitlabBad sep) = true) (first : Joint) (items : List (GItem × Joint))
    (hwf : ∀ p ∈ items, p.1.WF d sep ∧ p.1.Fine d) (hj : JointsOk items) :
    gitlabLoop mk d (some []) (gitlabItems sep (renderGitlab sep first items)) =
      constraintsOf mk (gitlabAst items) := by
  rw [gitlabLoop_filter, ← atomsText_atomsOf, tokenize sep hsep _
    (AtomsOk_atomsOf sep items first (fun p hp => itemToks_ok hk (hwf p hp).1) hj),
    toks_atomsOf]
  exact gitlabLoop_items mk d sep hk items hwf

theorem gitlabLoop_all_empty (mk : Str → Except TErr Str) (d : Dict) (st : Option Str)
    (items : List Str) (h : items.all (·.isEmpty) = true) : gitlabLoop mk d st items = .ok [] := by
  rw [gitlabLoop_filter]
  have : items.filter nonEmpty = [] := by
    rw [List.filter_eq_nil_iff]
    intro a ha
    have := List.all_eq_true.mp h a ha
    simp [nonEmpty, this]
  rw [this]
  rfl

/-- (a) GitLab through the entry point: for a GitLab scheme `gs` that resolves to the purl scheme
`purl`, range class `cls` (not one of the three delegated ones) with dictionary `d` and version
class `vc`, a rendering with the separator the code chooses converts to exactly the constraints
stated. -/
theorem gitlab_exact (mkVerOf : String → Str → Except TErr Str)
    (nativeOf : String → Str → Except TErr (List TCon))
    (gs purl cls vc : String) (d : Dict) (sep : Char) (first : Joint) (items : List (GItem × Joint))
    (hpurl : gitlabPurl gs = .ok purl)
    (hcls : rangeClassOf purl = some cls) (hnd : gitlabDelegated.contains cls = false)
    (hd : nativeDict cls = some d) (hvc : versionClassOf cls = some vc)
    (hsepdef : sep = gitlabSep purl (renderGitlab sep first items))
    (hk : keysOk d (gitlabBad sep) = true)
    (hwf : ∀ p ∈ items, p.1.WF d sep ∧ p.1.Fine d) (hj : JointsOk items) :
    fromGitlab mkVerOf nativeOf gs (renderGitlab sep first items) =
      constraintsOf (mkVerOf vc) (gitlabAst items) := by
  have hsep : sep ≠ '|' := by
    intro e
    rw [e] at hsepdef
    unfold gitlabSep at hsepdef
    split at hsepdef
    · exact absurd hsepdef (by decide)
    · split at hsepdef <;> exact absurd hsepdef (by decide)
  have main := gitlab_exact_dict (mkVerOf vc) d sep hsep hk first items hwf hj
  unfold fromGitlab
  simp only [hpurl, hcls, hnd, Bool.false_eq_true, ↓reduceIte, hd, hvc, ← hsepdef]
  split
  · rename_i hall
    rw [← main, gitlabLoop_all_empty _ _ _ _ hall]
  · exact main

/-- for the classes whose dictionary has no shadowed key, every glued item is fine -/
theorem GItem.fine_of_orderOk {d : Dict} (h : orderOk d = true) {sep : Char} {i : GItem}
    (hi : i.WF d sep) : i.Fine d := by
  cases i with
  | glued i => exact keyFine_of_orderOk h hi.1.1
  | apart _ _ _ _ => trivial

instance (d : Dict) (sep : Char) (i : GItem) : Decidable (i.WF d sep) := by
  cases i <;> (unfold GItem.WF; infer_instance)
instance (d : Dict) (i : GItem) : Decidable (i.Fine d) := by
  cases i <;> (unfold GItem.Fine; infer_instance)

/-- the hypotheses of `gitlab_exact` are satisfiable: `>=1.0 < 2.0||=3.0` for `gem` -/
example :
    let items : List (GItem × Joint) :=
      [(.glued ⟨.ge, ['1', '.', '0'], ['>', '='], [], [], []⟩, .seps 1),
       (.apart .lt ['<'] 0 ['2', '.', '0'], .pipes 0 0),
       (.glued ⟨.eq, ['3', '.', '0'], ['='], [], [], []⟩, .seps 0)]
    renderGitlab ' ' (.seps 0) items = ">=1.0 < 2.0||=3.0".toList ∧
    fromGitlab (fun _ => .ok) (fun _ _ => .ok []) "gem" (renderGitlab ' ' (.seps 0) items) =
      .ok [.mk .ge ['1', '.', '0'], .mk .lt ['2', '.', '0'], .mk .eq ['3', '.', '0']] := by
  refine ⟨by decide, ?_⟩
  exact gitlab_exact (fun _ => .ok) (fun _ _ => .ok []) "gem" "gem" "GemVersionRange" "RubygemsVersion"
    ((nativeDict "GemVersionRange").getD []) ' ' (.seps 0) _
    rfl (by decide) (by decide) (by decide) (by decide) (by decide) (by decide)
    (by decide) (by simp [JointsOk, Joint.Separates])


/-! ### (d) declared errors -/

/-- the result is a value or one of the errors the library declares for bad input
(`ValueError`, `InvalidVersion`, `InvalidVersionRange`) -/
def Declared {α : Type} : Except TErr α → Prop
  | .ok _ => True
  | .error e => e.declared = true

/-- the version constructor only raises declared errors (Layer A: C16 for the version class) -/
def MkDeclared (mk : Str → Except TErr Str) : Prop := ∀ t, Declared (mk t)

theorem mkCon_declared (c : Option Str) (v : Str) : Declared (mkCon c v) := by
  unfold mkCon
  cases c with
  | none => rfl
  | some t =>
    simp only
    cases cmprOfText t with
    | none => rfl
    | some o => cases o <;> trivial

theorem buildCon_declared {mk : Str → Except TErr Str} (hmk : MkDeclared mk) (c : Option Str) (t : Str) :
    Declared (buildCon mk c t) := by
  unfold buildCon
  have := hmk t
  cases h : mk t with
  | error e => rw [h] at this; exact this
  | ok v => exact mkCon_declared c v

theorem splitReq_declared (s : Str) (d : Dict) (dflt : Option Str) (strip : Str) :
    Declared (splitReq s d dflt strip) := by
  unfold splitReq
  simp only
  cases d.find? _ with
  | some kv => trivial
  | none =>
    cases dflt with
    | none => rfl
    | some x => simp only; split <;> first | rfl | trivial

theorem splitReqBracket_declared (s : Str) : Declared (splitReqBracket s) := by
  unfold splitReqBracket
  simp only
  split
  · trivial
  · split
    · trivial
    · split
      · trivial
      · split
        · trivial
        · rfl

theorem collect_declared {α β : Type} (f : α → Except TErr (List β)) :
    ∀ (xs : List α), (∀ x ∈ xs, Declared (f x)) → Declared (collect f xs)
  | [], _ => trivial
  | x :: xs, h => by
    have h1 := h x (by simp)
    have h2 := collect_declared f xs (fun y hy => h y (by simp [hy]))
    unfold collect
    cases hf : f x with
    | error e => rw [hf] at h1; exact h1
    | ok bs =>
      simp only
      cases hc : collect f xs with
      | error e => rw [hc] at h2; exact h2
      | ok cs => trivial

theorem single_declared {r : Except TErr TCon} (h : Declared r) :
    Declared (match r with | .error e => (.error e : Except TErr (List TCon)) | .ok k => .ok [k]) := by
  cases r with
  | error e => exact h
  | ok k => trivial

theorem githubConstraint_declared {mk : Str → Except TErr Str} (hmk : MkDeclared mk) (s : Str) :
    Declared (githubConstraint mk s) := by
  unfold githubConstraint
  have := splitReq_declared s githubDict none []
  cases h : splitReq s githubDict none [] with
  | error e => rw [h] at this; exact this
  | ok cv => exact buildCon_declared hmk cv.1 cv.2

theorem githubItems_declared {mk : Str → Except TErr Str} (hmk : MkDeclared mk) (items : List Str) :
    Declared (githubItems mk items) := by
  unfold githubItems
  apply collect_declared
  intro item _
  apply collect_declared
  intro c _
  exact single_declared (githubConstraint_declared hmk c)

theorem snykConstraint_declared {mk : Str → Except TErr Str} (hmk : MkDeclared mk) (s : Str) :
    Declared (snykConstraint mk s) := by
  rw [snykConstraint_eq]
  have h1 : Declared (if hasBracket s then splitReqBracket s else splitReq s snykDict none []) := by
    split
    · exact splitReqBracket_declared s
    · exact splitReq_declared _ _ _ _
  cases h : (if hasBracket s then splitReqBracket s else splitReq s snykDict none []) with
  | error e => rw [h] at h1; exact h1
  | ok cv =>
    simp only
    unfold snykTail
    generalize ((match cv.1 with | some t => !t.isEmpty | none => false) && !cv.2.isEmpty) = b
    cases b
    · simp only [Bool.false_eq_true, ↓reduceIte]; trivial
    · simp only [↓reduceIte]
      have hb := buildCon_declared hmk cv.1 cv.2
      cases hh : buildCon mk cv.1 cv.2 with
      | error e => rw [hh] at hb; exact hb
      | ok k => trivial

theorem snykItems_declared {mk : Str → Except TErr Str} (hmk : MkDeclared mk) (items : List Str) :
    Declared (snykItems mk items) := by
  unfold snykItems
  apply collect_declared
  intro item _
  apply collect_declared
  intro c _
  exact snykConstraint_declared hmk c

/-- every class of the registry has a version class -/
theorem registry_version_classes :
    ∀ p ∈ Gen.registry, (versionClassOf p.2).isSome = true := by decide

theorem mem_of_lookup_str {β : Type} : ∀ (l : List (String × β)) (k : String) (v : β),
    l.lookup k = some v → (k, v) ∈ l
  | [], _, _, h => by simp [List.lookup] at h
  | (k', v') :: l, k, v, h => by
    by_cases hk : (k == k') = true
    · simp only [List.lookup, hk] at h
      have e1 : k = k' := by simpa using hk
      have e2 : v' = v := by simpa using h
      simp [e1, e2]
    · have hk' : (k == k') = false := by simpa using hk
      simp only [List.lookup, hk'] at h
      exact List.mem_cons_of_mem _ (mem_of_lookup_str l k v h)

theorem verOfScheme_known {mkVerOf : String → Str → Except TErr Str} {scheme : String}
    (hs : (rangeClassOf scheme).isSome = true) :
    ∃ vc, verOfScheme mkVerOf scheme = .ok (mkVerOf vc) := by
  unfold verOfScheme
  cases h : rangeClassOf scheme with
  | none => rw [h] at hs; simp at hs
  | some cls =>
    have hm := mem_of_lookup_str Gen.registry scheme cls h
    have := registry_version_classes _ hm
    simp only at this ⊢
    cases hv : versionClassOf cls with
    | none => rw [hv] at this; simp at this
    | some vc => exact ⟨vc, rfl⟩

/-- (d) GitHub: for a REGISTERED scheme every input — any list of any strings — gives a range or a
declared error, provided the version class itself only raises declared errors. -/
theorem github_declared_partial (mkVerOf : String → Str → Except TErr Str)
    (hmk : ∀ vc, MkDeclared (mkVerOf vc)) (scheme : String)
    (hs : (rangeClassOf scheme).isSome = true) (items : List Str) :
    Declared (fromGithub mkVerOf scheme items) := by
  obtain ⟨vc, h⟩ := verOfScheme_known (mkVerOf := mkVerOf) hs
  unfold fromGithub
  rw [h]
  exact githubItems_declared (hmk vc) items

/-- an unknown scheme escapes as the internal `KeyError` of the registry lookup (C16 finding) -/
theorem github_declared_counterexample :
    fromGithub (fun _ => .ok) "nope" [['>', '1']] = .error .KeyError ∧
      TErr.KeyError.declared = false := ⟨rfl, rfl⟩

theorem github_unknown_scheme (mkVerOf : String → Str → Except TErr Str) (scheme : String)
    (hs : rangeClassOf scheme = none) (items : List Str) :
    fromGithub mkVerOf scheme items = .error .KeyError := by
  unfold fromGithub verOfScheme
  rw [hs]

/-- (d) Snyk: same statement -/
theorem snyk_declared_partial (mkVerOf : String → Str → Except TErr Str)
    (hmk : ∀ vc, MkDeclared (mkVerOf vc)) (scheme : String)
    (hs : (rangeClassOf scheme).isSome = true) (items : List Str) :
    Declared (fromSnyk mkVerOf scheme items) := by
  obtain ⟨vc, h⟩ := verOfScheme_known (mkVerOf := mkVerOf) hs
  unfold fromSnyk
  rw [h]
  exact snykItems_declared (hmk vc) items

theorem snyk_declared_counterexample :
    fromSnyk (fun _ => .ok) "nope" [['>', '1']] = .error .KeyError ∧
      TErr.KeyError.declared = false := ⟨rfl, rfl⟩

theorem snyk_unknown_scheme (mkVerOf : String → Str → Except TErr Str) (scheme : String)
    (hs : rangeClassOf scheme = none) (items : List Str) :
    fromSnyk mkVerOf scheme items = .error .KeyError := by
  unfold fromSnyk verOfScheme
  rw [hs]

/-! #### Debian, RPM, OpenSSL -/

theorem relNatives_declared {mk : Str → Except TErr Str} (hmk : MkDeclared mk) (cls : String)
    (d : Dict) (hd : nativeDict cls = some d) (strip : Str) (strings : List Str) :
    Declared (relNatives mk cls strip strings) := by
  unfold relNatives
  apply collect_declared
  intro s _
  simp only [hd]
  apply single_declared
  unfold relConstraint
  have := splitReq_declared s d none strip
  cases h : splitReq s d none strip with
  | error e => rw [h] at this; exact this
  | ok cv => exact buildCon_declared hmk cv.1 cv.2

/-- (d) `DebianVersionRange.from_native(s)`: every input gives a range or a declared error -/
theorem deb_declared {mk : Str → Except TErr Str} (hmk : MkDeclared mk) (strings : List Str) :
    Declared (debNatives mk strings) :=
  relNatives_declared hmk _ debDict nativeDict_deb _ strings

/-- (d) `RpmVersionRange.from_native(s)` -/
theorem rpm_declared {mk : Str → Except TErr Str} (hmk : MkDeclared mk) (strings : List Str) :
    Declared (rpmNatives mk strings) :=
  relNatives_declared hmk _ rpmDict nativeDict_rpm _ strings

/-- (d) `OpensslVersionRange.from_native` -/
theorem openssl_declared {mk : Str → Except TErr Str} (hmk : MkDeclared mk) (s : Str) :
    Declared (opensslNative mk s) := by
  unfold opensslNative
  apply collect_declared
  intro v _
  exact single_declared (buildCon_declared hmk _ v)

/-! #### GitLab -/

theorem gitlabCon_declared {mk : Str → Except TErr Str} (hmk : MkDeclared mk) (d : Dict) (c item : Str) :
    Declared (if !c.isEmpty then buildCon mk (some c) item
      else match splitReq item d (some ['=']) [] with
        | .error e => .error e
        | .ok (c', v) => buildCon mk c' v) := by
  split
  · exact buildCon_declared hmk _ _
  · have := splitReq_declared item d (some ['=']) []
    cases h : splitReq item d (some ['=']) [] with
    | error e => rw [h] at this; exact this
    | ok cv => exact buildCon_declared hmk cv.1 cv.2

/-- the token loop, started in a `str` state, only lets declared errors escape (a `None` value
of the dictionary is reported as `ValueError`) -/
theorem gitlabLoop_declared {mk : Str → Except TErr Str} (hmk : MkDeclared mk) (d : Dict) :
    ∀ (items : List Str) (c : Str), Declared (gitlabLoop mk d (some c) items)
  | [], _ => trivial
  | item :: rest, c => by
    by_cases hne : item = []
    · subst hne
      rw [gitlabLoop_nil_item]
      exact gitlabLoop_declared hmk d rest c
    · cases hl : d.lookup (c ++ item) with
      | some v =>
        cases v with
        | none => rw [gitlabLoop_noneval _ _ _ _ _ hne hl]; rfl
        | some v =>
          rw [gitlabLoop_key _ _ _ _ _ _ hne hl]
          exact gitlabLoop_declared hmk d rest v
      | none =>
        rw [gitlabLoop_ver _ _ _ _ _ hne hl]
        have hc := gitlabCon_declared hmk d c item
        have ih := gitlabLoop_declared hmk d rest []
        cases hcon : (if !c.isEmpty then buildCon mk (some c) item
            else match splitReq item d (some ['=']) [] with
              | .error e => .error e
              | .ok (c', v) => buildCon mk c' v) with
        | error e => rw [hcon] at hc; exact hc
        | ok k =>
          simp only
          cases hr : gitlabLoop mk d (some []) rest with
          | error e => rw [hr] at ih; exact ih
          | ok ks => trivial

/-- what the code needs from the class of a purl scheme: it is registered, and either delegated
or it has a dictionary and a version class -/
def gitlabClassOk (purl : String) : Bool :=
  match rangeClassOf purl with
  | none => false
  | some cls => gitlabDelegated.contains cls ||
    ((nativeDict cls).isSome && (versionClassOf cls).isSome)

theorem gitlab_classes_ok : ∀ p ∈ Gen.gitlabSchemes, gitlabClassOk p.2 = true := by decide

theorem gitlabPurl_mem {gs purl : String} (h : gitlabPurl gs = .ok purl) :
    ∃ p ∈ Gen.gitlabSchemes, p.2 = purl := by
  unfold gitlabPurl at h
  split at h
  · rename_i hc
    have e : gs = purl := by injection h
    have := List.contains_iff_mem.mp hc
    obtain ⟨p, hp, hp2⟩ := List.mem_map.mp this
    exact ⟨p, hp, hp2.trans e⟩
  · cases hl : Gen.gitlabSchemes.lookup gs with
    | none => rw [hl] at h; simp at h
    | some p =>
      rw [hl] at h
      have e : p = purl := by injection h
      exact ⟨(gs, p), mem_of_lookup_str _ _ _ hl, e⟩

/-- (d) GitLab: for every KNOWN GitLab scheme (pypi included) every text gives a range or a
declared error (the delegated `from_native` of conan / maven / nuget being assumed so). -/
theorem gitlab_declared (mkVerOf : String → Str → Except TErr Str)
    (nativeOf : String → Str → Except TErr (List TCon))
    (hmk : ∀ vc, MkDeclared (mkVerOf vc)) (hnat : ∀ p s, Declared (nativeOf p s))
    (gs purl : String) (hp : gitlabPurl gs = .ok purl) (s : Str) :
    Declared (fromGitlab mkVerOf nativeOf gs s) := by
  obtain ⟨p, hpm, hp2⟩ := gitlabPurl_mem hp
  have hok := gitlab_classes_ok p hpm
  rw [hp2] at hok
  unfold fromGitlab
  simp only [hp]
  unfold gitlabClassOk at hok
  cases hc : rangeClassOf purl with
  | none => simp [hc] at hok
  | some cls =>
    simp only [hc] at hok ⊢
    by_cases hdel : gitlabDelegated.contains cls = true
    · simp only [hdel, ↓reduceIte]
      exact hnat purl s
    · have hdel' : gitlabDelegated.contains cls = false := by simpa using hdel
      simp only [hdel', Bool.false_eq_true, ↓reduceIte, Bool.false_or] at hok ⊢
      split
      · trivial
      · cases hd : nativeDict cls with
        | none => simp [hd] at hok
        | some d =>
          cases hv : versionClassOf cls with
          | none => simp [hv] at hok
          | some vc => exact gitlabLoop_declared (hmk vc) d _ []

/-- the former `TypeError` witnesses are now `ValueError`s -/
theorem gitlab_none_comparator_examples :
    fromGitlab (fun _ => .ok) (fun _ _ => .ok []) "pypi" "~=,1.0".toList = .error .ValueError ∧
    fromGitlab (fun _ => .ok) (fun _ _ => .ok []) "pypi" "==,==,1.0".toList = .error .ValueError ∧
    fromGitlab (fun _ => .ok) (fun _ _ => .ok []) "pypi" "===1.0".toList = .error .ValueError := by
  refine ⟨by rfl, by rfl, by rfl⟩

/-- an unknown GitLab scheme escapes as `KeyError` (C16 finding) -/
theorem gitlab_declared_counterexample_keyerror :
    fromGitlab (fun _ => .ok) (fun _ _ => .ok []) "nope" ['>', '1'] = .error .KeyError := by rfl

theorem gitlab_unknown_scheme (mkVerOf : String → Str → Except TErr Str)
    (nativeOf : String → Str → Except TErr (List TCon)) (gs : String) (s : Str)
    (h : gitlabPurl gs = .error .KeyError) : fromGitlab mkVerOf nativeOf gs s = .error .KeyError := by
  unfold fromGitlab
  rw [h]


/-! ### (e) nginx -/

theorem mkCon_ge (v : Str) : mkCon (some ['>', '=']) v = .ok (.mk .ge v) := rfl
theorem mkCon_le (v : Str) : mkCon (some ['<', '=']) v = .ok (.mk .le v) := rfl
theorem mkCon_lt (v : Str) : mkCon (some ['<']) v = .ok (.mk .lt v) := rfl
theorem mkCon_eq (v : Str) : mkCon (some ['=']) v = .ok (.mk .eq v) := rfl

theorem partition_append (sep : Char) (b : Str) : ∀ (a : Str), sep ∉ a →
    partition sep (a ++ sep :: b) = (a, b)
  | [], _ => by simp [partition]
  | c :: a, h => by
    have hc : (c == sep) = false := by
      cases e : c == sep with
      | false => rfl
      | true => exact absurd (by simp [beq_iff_eq.mp e]) h
    simp only [List.cons_append, partition, hc, Bool.false_eq_true, ↓reduceIte]
    rw [partition_append sep b a (fun hm => h (by simp [hm]))]

theorem contains_false_of_not_mem {c : Char} {s : Str} (h : c ∉ s) : s.contains c = false := by
  cases e : s.contains c with
  | false => rfl
  | true => exact absurd (List.contains_iff_mem.mp e) h

/-- (e) a dash range `a-b` with different ends gives `>=a` and `<=b` (both ends included) -/
theorem nginx_dash (o : NginxOps) (a b : Str) (ra rb : o.R) (hna : '-' ∉ a)
    (ha : o.make a = .ok ra) (hb : o.make b = .ok rb) (hne : o.eq ra rb = false) :
    nginxClause o (a ++ '-' :: b) = .ok [.mk .ge (o.str ra), .mk .le (o.str rb)] := by
  unfold nginxClause
  have hc : (a ++ '-' :: b).contains '-' = true := by simp
  simp only [hc, ↓reduceIte, partition_append '-' b a hna, ha, hb, hne, Bool.false_eq_true,
    mkCon_ge, mkCon_le]

/-- (e) a dash range whose ends are EQUAL versions is that single version -/
theorem nginx_dash_equal (o : NginxOps) (a b : Str) (ra rb : o.R) (hna : '-' ∉ a)
    (ha : o.make a = .ok ra) (hb : o.make b = .ok rb) (heq : o.eq ra rb = true) :
    nginxClause o (a ++ '-' :: b) = .ok [.mk .eq (o.str ra)] := by
  unfold nginxClause
  have hc : (a ++ '-' :: b).contains '-' = true := by simp
  simp only [hc, ↓reduceIte, partition_append '-' b a hna, ha, hb, heq, mkCon_eq]

/-- (e) `v+` on a stable branch (even minor): from `v` up to, not including, the next minor -/
theorem nginx_plus_stable (o : NginxOps) (vs t : Str) (r r2 : o.R) (h1 : '-' ∉ vs) (h2 : '+' ∉ vs)
    (hm : o.make vs = .ok r) (hs : o.isStable r = true) (hn : o.nextMinor r = .ok t)
    (hm2 : o.make t = .ok r2) :
    nginxClause o (vs ++ ['+']) = .ok [.mk .ge (o.str r), .mk .lt (o.str r2)] := by
  unfold nginxClause
  have hc1 : (vs ++ ['+']).contains '-' = false :=
    contains_false_of_not_mem (by simp [h1])
  have hc2 : (vs ++ ['+']).contains '+' = true := by simp
  have hr : rstripSet ['+'] (vs ++ ['+']) = vs := by
    rw [rstripSet_append_all _ _ _ (by simp)]
    by_cases hv : vs = []
    · subst hv; rfl
    · obtain ⟨a, z, hz⟩ := exists_snoc vs hv
      rw [hz]
      exact rstripSet_last _ _ _ (by
        have : z ≠ '+' := fun e => h2 (by rw [hz, e]; simp)
        simp [this])
  simp only [hc1, hc2, Bool.false_eq_true, ↓reduceIte, hr, hm, hs, hn, hm2, mkCon_ge, mkCon_lt]

/-- (e) `v+` on the mainline branch (odd minor): everything from `v` on -/
theorem nginx_plus_mainline (o : NginxOps) (vs : Str) (r : o.R) (h1 : '-' ∉ vs) (h2 : '+' ∉ vs)
    (hm : o.make vs = .ok r) (hs : o.isStable r = false) :
    nginxClause o (vs ++ ['+']) = .ok [.mk .ge (o.str r)] := by
  unfold nginxClause
  have hc1 : (vs ++ ['+']).contains '-' = false :=
    contains_false_of_not_mem (by simp [h1])
  have hc2 : (vs ++ ['+']).contains '+' = true := by simp
  have hr : rstripSet ['+'] (vs ++ ['+']) = vs := by
    rw [rstripSet_append_all _ _ _ (by simp)]
    by_cases hv : vs = []
    · subst hv; rfl
    · obtain ⟨a, z, hz⟩ := exists_snoc vs hv
      rw [hz]
      exact rstripSet_last _ _ _ (by
        have : z ≠ '+' := fun e => h2 (by rw [hz, e]; simp)
        simp [this])
  simp only [hc1, hc2, Bool.false_eq_true, ↓reduceIte, hr, hm, hs, mkCon_ge]

/-- (e) a plain version is the single version -/
theorem nginx_plain (o : NginxOps) (vs : Str) (r : o.R) (h1 : '-' ∉ vs) (h2 : '+' ∉ vs)
    (hm : o.make vs = .ok r) : nginxClause o vs = .ok [.mk .eq (o.str r)] := by
  unfold nginxClause
  simp only [contains_false_of_not_mem h1, contains_false_of_not_mem h2, Bool.false_eq_true,
    ↓reduceIte, hm, mkCon_eq]

/-- (e) `all` is the star -/
theorem nginx_all (o : NginxOps) : nginxNative o ['a', 'l', 'l'] = .ok [.star] := rfl

/-- a range is its comma-separated clauses, in order (on text without whitespace and upper case,
different from `all`) -/
theorem nginx_clauses (o : NginxOps) (s : Str) (hclean : lower (removeSpaces s) = s)
    (hall : s ≠ ['a', 'l', 'l']) : nginxNative o s = collect (nginxClause o) (splitOn ',' s) := by
  unfold nginxNative
  simp only [hclean]
  have : (s == ['a', 'l', 'l']) = false := by simpa using hall
  simp [this]

/-! #### the semver instance -/

theorem nginxSemver_isStable (r : Semver.Raw) :
    nginxSemver.isStable r = (r.minor % 2 == 0) := rfl

/-- with the Layer-A semver model: the documented examples -/
theorem nginx_examples :
    nginxNative nginxSemver "1.5.10".toList = .ok [.mk .eq "1.5.10".toList] ∧
    nginxNative nginxSemver "0.7.52-0.8.39".toList =
      .ok [.mk .ge "0.7.52".toList, .mk .le "0.8.39".toList] ∧
    nginxNative nginxSemver "0.8.40+, 0.7.66+".toList =
      .ok [.mk .ge "0.8.40".toList, .mk .lt "0.9.0".toList, .mk .ge "0.7.66".toList] ∧
    nginxNative nginxSemver "1.5.0+, 1.4.1+".toList =
      .ok [.mk .ge "1.5.0".toList, .mk .ge "1.4.1".toList, .mk .lt "1.5.0".toList] ∧
    nginxNative nginxSemver "none".toList = .error .InvalidVersion := by
  refine ⟨by rfl, by rfl, by rfl, by rfl, by rfl⟩

/-- (e) the formerly suspicious case: equal ends (also when spelled differently) give ONE version -/
theorem nginx_dash_equal_examples :
    nginxNative nginxSemver "1.2.3-1.2.3".toList = .ok [.mk .eq "1.2.3".toList] ∧
    nginxNative nginxSemver "1.2-1.2.0".toList = .ok [.mk .eq "1.2.0".toList] ∧
    nginxNative nginxSemver "1.2.3-1.2.4".toList =
      .ok [.mk .ge "1.2.3".toList, .mk .le "1.2.4".toList] := by
  refine ⟨by rfl, by rfl, by rfl⟩

theorem nginxClause_declared (o : NginxOps) (hmake : ∀ t, Declared (o.make t))
    (hnext : ∀ r, Declared (o.nextMinor r)) (cl : Str) : Declared (nginxClause o cl) := by
  unfold nginxClause
  simp only [mkCon_ge, mkCon_le, mkCon_lt, mkCon_eq]
  split
  · have h1 := hmake (partition '-' cl).1
    cases e1 : o.make (partition '-' cl).1 with
    | error e => rw [e1] at h1; exact h1
    | ok s =>
      simp only
      have h2 := hmake (partition '-' cl).2
      cases e2 : o.make (partition '-' cl).2 with
      | error e => rw [e2] at h2; exact h2
      | ok e => simp only; split <;> trivial
  · split
    · have h1 := hmake (rstripSet ['+'] cl)
      cases e1 : o.make (rstripSet ['+'] cl) with
      | error e => rw [e1] at h1; exact h1
      | ok v =>
        simp only
        split
        · have h2 := hnext v
          cases e2 : o.nextMinor v with
          | error e => rw [e2] at h2; exact h2
          | ok t =>
            simp only
            have h3 := hmake t
            cases e3 : o.make t with
            | error e => rw [e3] at h3; exact h3
            | ok w => trivial
        · trivial
    · have h1 := hmake cl
      cases e1 : o.make cl with
      | error e => rw [e1] at h1; exact h1
      | ok v => trivial


/-! #### nginx: declared errors -/

/-- (d) `NginxVersionRange.from_native`: every text gives a range or a declared error, when the
version operations only raise declared errors -/
theorem nginx_declared (o : NginxOps) (hmake : ∀ t, Declared (o.make t))
    (hnext : ∀ r, Declared (o.nextMinor r)) (s : Str) : Declared (nginxNative o s) := by
  unfold nginxNative
  simp only
  split
  · trivial
  · exact collect_declared _ _ (fun cl _ => nginxClause_declared o hmake hnext cl)

theorem semver_constructWith_error (again : Bool) (s : Str) (e : Semver.PErr)
    (h : Semver.constructWith again s = .error e) : e = .invalid := by
  unfold Semver.constructWith Semver.isValid at h
  simp only at h
  cases hb : Semver.buildValue again (Semver.normalize s) with
  | none => simp [hb] at h; exact h.symm
  | some v => simp [hb] at h

theorem nginxSemver_make_declared (t : Str) : Declared (nginxSemver.make t) := by
  show Declared (match Semver.constructNginx t with
    | .ok r => .ok r
    | .error e => .error (semverErr e))
  cases h : Semver.constructNginx t with
  | ok r => trivial
  | error e =>
    have := semver_constructWith_error false t e h
    subst this
    rfl

theorem nginxSemver_next_declared (r : Semver.Raw) : Declared (nginxSemver.nextMinor r) := by
  show Declared (match Semver.verNextMinor r with
    | .ok r' => .ok (Semver.str r')
    | .error e => .error (semverErr e))
  cases h : Semver.verNextMinor r with
  | ok r => trivial
  | error e =>
    have := semver_constructWith_error false _ e h
    subst this
    rfl

/-- (d) with the Layer-A semver model as `NginxVersion`: every text gives a range or
`InvalidVersion` (C06/C16 for nginx) -/
theorem nginx_declared_semver (s : Str) : Declared (nginxNative nginxSemver s) :=
  nginx_declared nginxSemver nginxSemver_make_declared nginxSemver_next_declared s


/-! #### nginx with the semver model on plain `N.N.N` versions -/

open Semver in
/-- the text `a.b.c` -/
def relText (a b c : Nat) : Str := natStr a ++ '.' :: (natStr b ++ '.' :: natStr c)

open Semver in
theorem natStr_digits (n : Nat) : ∀ c ∈ natStr n, c.isDigit = true :=
  fun _ hc => Nat.isDigit_of_mem_toDigits (by decide) (by decide) hc

open Semver in
theorem natStr_ne_nil (n : Nat) : natStr n ≠ [] := Nat.toDigits_ne_nil

theorem digitChar_eq_zero : ∀ n, n < 10 → Nat.digitChar n = '0' → n = 0 := by decide

open Semver in
/-- a decimal numeral only starts with `0` when it is `0` -/
theorem natStr_head_zero (n : Nat) : (natStr n).head? = some '0' → n = 0 := by
  induction n using Nat.strongRecOn with
  | _ n ih =>
    intro h
    unfold natStr at h
    rw [Nat.toDigits_eq_if (by decide)] at h
    split at h
    · rename_i hlt
      simp only [List.head?_cons, Option.some.injEq] at h
      exact digitChar_eq_zero n hlt h
    · rename_i hge
      have hne : Nat.toDigits 10 (n / 10) ≠ [] := Nat.toDigits_ne_nil
      have happ : ∀ (l m : Str), l ≠ [] → (l ++ m).head? = l.head? := by
        intro l m hl
        cases l with
        | nil => exact absurd rfl hl
        | cons x t => rfl
      rw [happ _ _ hne] at h
      have := ih (n / 10) (by omega) h
      omega

open Semver in
theorem hasLeadingZero_natStr (n : Nat) : hasLeadingZero (natStr n) = false := by
  unfold hasLeadingZero
  by_cases h : (natStr n).head? = some '0'
  · have := natStr_head_zero n h
    subst this
    rfl
  · have : ((natStr n).head? == some '0') = false := by simpa using h
    simp [this]

open Semver in
theorem stripZeros_natStr (n : Nat) : stripZeros (natStr n) = natStr n := by
  unfold stripZeros
  by_cases h : (natStr n).head? = some '0'
  · have := natStr_head_zero n h
    subst this
    rfl
  · cases hs : natStr n with
    | nil => exact absurd hs (natStr_ne_nil n)
    | cons x t =>
      rw [hs] at h
      have hx : (x == '0') = false := by simpa using h
      simp [List.dropWhile_cons, hx]

open Semver in
theorem parseNat_natStr (n : Nat) : parseNat (natStr n) = n := Nat.ofDigitChars_ten_toDigits

theorem takeWhile_append_stop {α : Type} (p : α → Bool) (x : α) (r : List α) (hx : p x = false) :
    ∀ (l : List α), (∀ c ∈ l, p c = true) →
      (l ++ x :: r).takeWhile p = l ∧ (l ++ x :: r).dropWhile p = x :: r
  | [], _ => by simp [List.takeWhile_cons, List.dropWhile_cons, hx]
  | c :: l, h => by
    have hc := h c (by simp)
    have ih := takeWhile_append_stop p x r hx l (fun y hy => h y (by simp [hy]))
    simp [List.takeWhile_cons, List.dropWhile_cons, hc, ih.1, ih.2]

theorem takeWhile_all {α : Type} (p : α → Bool) :
    ∀ (l : List α), (∀ c ∈ l, p c = true) → l.takeWhile p = l ∧ l.dropWhile p = []
  | [], _ => by simp
  | c :: l, h => by
    have hc := h c (by simp)
    have ih := takeWhile_all p l (fun y hy => h y (by simp [hy]))
    simp [List.takeWhile_cons, List.dropWhile_cons, hc, ih.1, ih.2]

open Semver in
/-- `SemverVersion("a.b.c")` is the release version `(a, b, c)` -/
theorem semver_construct_relText (a b c : Nat) :
    Semver.construct (relText a b c) = .ok ⟨a, b, c, [], []⟩ := by
  have hdot : Char.isDigit '.' = false := by decide
  -- the lexical facts
  have t1 := takeWhile_append_stop Char.isDigit '.' (natStr b ++ '.' :: natStr c) hdot (natStr a)
    (natStr_digits a)
  have t2 := takeWhile_append_stop Char.isDigit '.' (natStr c) hdot (natStr b) (natStr_digits b)
  have t3 := takeWhile_all Char.isDigit (natStr c) (natStr_digits c)
  have hna : (natStr a).isEmpty = false := by simpa using natStr_ne_nil a
  have hnb : (natStr b).isEmpty = false := by simpa using natStr_ne_nil b
  have hnc : (natStr c).isEmpty = false := by simpa using natStr_ne_nil c
  -- normalize is the identity
  have hnorm : Semver.normalize (relText a b c) = relText a b c := by
    have hclean : ∀ x ∈ relText a b c, Semver.isPySpace x = false ∧ x ≠ 'v' ∧ x ≠ 'V' := by
      intro x hx
      have hd : x.isDigit = true ∨ x = '.' := by
        simp only [relText, List.mem_append, List.mem_cons] at hx
        rcases hx with h | h | h | h | h
        · exact Or.inl (natStr_digits a x h)
        · exact Or.inr h
        · exact Or.inl (natStr_digits b x h)
        · exact Or.inr h
        · exact Or.inl (natStr_digits c x h)
      rcases hd with h | h
      · have hr := Char.isDigit_iff_toNat.mp h
        simp only [Char.reduceToNat] at hr
        have h1 : (x == ' ') = false := by
          cases e : x == ' ' with
          | false => rfl
          | true => rw [beq_iff_eq.mp e] at hr; simp at hr
        have h2 : decide (x.toNat ≤ 13) = false := by simp; omega
        have h3 : decide (x.toNat ≤ 31) = false := by simp; omega
        refine ⟨by simp [Semver.isPySpace, h1, h2, h3], ?_, ?_⟩
        · intro e; rw [e] at hr; simp at hr
        · intro e; rw [e] at hr; simp at hr
      · subst h; exact ⟨by decide, by decide, by decide⟩
    unfold Semver.normalize Semver.removeSpaces Semver.lstripV
    rw [List.filter_eq_self.mpr (fun x hx => by simp [(hclean x hx).1])]
    cases hs : relText a b c with
    | nil => rfl
    | cons x t =>
      have := hclean x (by rw [hs]; simp)
      simp [List.dropWhile_cons, this.2.1, this.2.2]
  have hbase : matchBase (relText a b c) = some ([natStr a, natStr b, natStr c], []) := by
    unfold matchBase relText
    simp only [t1.1, t1.2, hna, Bool.false_eq_true, ↓reduceIte, t2.1, t2.2, hnb, t3.1, t3.2, hnc]
  have hcs : coerceString (relText a b c) = some (relText a b c) := by
    unfold coerceString
    simp only [hbase, padComponents, List.map_cons, List.map_nil, stripZeros_natStr, joinWith,
      List.isEmpty_nil, ↓reduceIte]
    rfl
  have hre : matchVersionRe (relText a b c) = some (natStr a, natStr b, natStr c, none, none) := by
    unfold matchVersionRe relText
    simp only [t1.1, t1.2, t2.1, t2.2, t3.1, t3.2, hna, hnb, hnc, Bool.or_self, Bool.false_eq_true,
      ↓reduceIte, optGroup, beq_self_eq_true, Bool.true_or]
  have hne : (relText a b c).isEmpty = false := by
    unfold relText
    cases hs : natStr a with
    | nil => exact absurd hs (natStr_ne_nil a)
    | cons x t => rfl
  have hparse : parse (relText a b c) = some ⟨a, b, c, [], []⟩ := by
    unfold parse
    simp only [hne, Bool.false_eq_true, ↓reduceIte, hre, hasLeadingZero_natStr, groupIdents,
      validateIdentifiers, List.all_nil, Bool.not_true, parseNat_natStr]
  unfold construct constructWith isValid buildValue coerce
  simp only [hnorm, Bool.false_eq_true, ↓reduceIte, hcs, hparse, Option.isSome_some, Bool.not_true]

theorem semver_str_release (a b c : Nat) : Semver.str ⟨a, b, c, [], []⟩ = relText a b c := by
  simp [Semver.str, relText]

theorem nginxSemver_make_relText (a b c : Nat) :
    nginxSemver.make (relText a b c) = .ok (⟨a, b, c, [], []⟩ : Semver.Raw) := by
  show (match Semver.constructNginx (relText a b c) with
    | .ok r => (Except.ok r : Except TErr Semver.Raw)
    | .error e => .error (semverErr e)) = _
  rw [Semver.constructNginx_eq, semver_construct_relText]
  rfl

theorem nginxSemver_next_release (a b c : Nat) :
    nginxSemver.nextMinor (⟨a, b, c, [], []⟩ : Semver.Raw) = .ok (relText a (b + 1) 0) := by
  show (match Semver.verNextMinor ⟨a, b, c, [], []⟩ with
    | .ok r' => (Except.ok (Semver.str r') : Except TErr Str)
    | .error e => .error (semverErr e)) = _
  have : Semver.nextMinor ⟨a, b, c, [], []⟩ = ⟨a, b + 1, 0, [], []⟩ := by
    simp [Semver.nextMinor]
  unfold Semver.verNextMinor
  rw [this, semver_str_release, semver_construct_relText]
  simp [semver_str_release]

/-- the characters of `a.b.c` -/
theorem relText_chars (a b c : Nat) : ∀ x ∈ relText a b c, x.isDigit = true ∨ x = '.' := by
  intro x hx
  simp only [relText, List.mem_append, List.mem_cons] at hx
  rcases hx with h | h | h | h | h
  · exact Or.inl (natStr_digits a x h)
  · exact Or.inr h
  · exact Or.inl (natStr_digits b x h)
  · exact Or.inr h
  · exact Or.inl (natStr_digits c x h)

theorem relText_not_mem (a b c : Nat) (x : Char) (h1 : x.isDigit = false) (h2 : x ≠ '.') :
    x ∉ relText a b c := by
  intro hm
  rcases relText_chars a b c x hm with h | h
  · rw [h1] at h; exact absurd h (by simp)
  · exact h2 h

theorem collect_singleton {α β : Type} (f : α → Except TErr (List β)) (x : α) :
    collect f [x] = f x := by
  simp only [collect]
  cases f x <;> simp

/-- a text made of digits, `.`, `+`, `-` is one clause -/
theorem nginx_single (o : NginxOps) (s : Str)
    (h : ∀ x ∈ s, x.isDigit = true ∨ x = '.' ∨ x = '+' ∨ x = '-') :
    nginxNative o s = nginxClause o s := by
  have hprop : ∀ x ∈ s, isPySpace x = false ∧ ¬ ('A' ≤ x ∧ x ≤ 'Z') ∧ x ≠ ',' ∧ x ≠ 'a' := by
    intro x hx
    rcases h x hx with h | h | h | h
    · have hr := Char.isDigit_iff_toNat.mp h
      simp only [Char.reduceToNat] at hr
      have h1 : (x == ' ') = false := by
        cases e : x == ' ' with
        | false => rfl
        | true => rw [beq_iff_eq.mp e] at hr; simp at hr
      have h2 : decide (x.toNat ≤ 13) = false := by simp; omega
      have h3 : decide (x.toNat ≤ 31) = false := by simp; omega
      refine ⟨by simp [isPySpace, h1, h2, h3], ?_, ?_, ?_⟩
      · intro ⟨hA, _⟩
        have : 'A'.toNat ≤ x.toNat := by simpa [Char.le_def, UInt32.le_iff_toNat_le] using hA
        simp at this; omega
      · intro e; rw [e] at hr; simp at hr
      · intro e; rw [e] at hr; simp at hr
    · subst h; exact ⟨by decide, by decide, by decide, by decide⟩
    · subst h; exact ⟨by decide, by decide, by decide, by decide⟩
    · subst h; exact ⟨by decide, by decide, by decide, by decide⟩
  have hclean : lower (removeSpaces s) = s := by
    rw [removeSpaces_clean _ (fun x hx => (hprop x hx).1)]
    unfold lower
    conv => rhs; rw [← List.map_id s]
    apply List.map_congr_left
    intro x hx
    simp [(hprop x hx).2.1]
  have hall : s ≠ ['a', 'l', 'l'] := by
    intro e
    exact (hprop 'a' (by rw [e]; simp)).2.2.2 rfl
  rw [nginx_clauses o s hclean hall, splitOn_nosep ',' s (fun hm => (hprop ',' hm).2.2.1 rfl),
    collect_singleton]

/-- (e) `a.b.c+` with an EVEN minor `b` (stable branch): `>=a.b.c` and `<a.(b+1).0` -/
theorem nginx_plus_stable_numeric (a b c : Nat) (hb : b % 2 = 0) :
    nginxNative nginxSemver (relText a b c ++ ['+']) =
      .ok [.mk .ge (relText a b c), .mk .lt (relText a (b + 1) 0)] := by
  rw [nginx_single]
  · have := nginx_plus_stable nginxSemver (relText a b c) (relText a (b + 1) 0)
      (⟨a, b, c, [], []⟩ : Semver.Raw) (⟨a, b + 1, 0, [], []⟩ : Semver.Raw)
      (relText_not_mem a b c '-' (by decide) (by decide))
      (relText_not_mem a b c '+' (by decide) (by decide))
      (nginxSemver_make_relText a b c) (by simp [nginxSemver_isStable, hb])
      (nginxSemver_next_release a b c) (nginxSemver_make_relText a (b + 1) 0)
    rw [this]
    show Except.ok [Con.mk Cmpr.ge (Semver.str ⟨a, b, c, [], []⟩),
      Con.mk Cmpr.lt (Semver.str ⟨a, b + 1, 0, [], []⟩)] = _
    rw [semver_str_release, semver_str_release]
  · intro x hx
    simp only [List.mem_append, List.mem_singleton] at hx
    rcases hx with h | h
    · rcases relText_chars a b c x h with h | h
      · exact Or.inl h
      · exact Or.inr (Or.inl h)
    · exact Or.inr (Or.inr (Or.inl h))

/-- (e) `a.b.c+` with an ODD minor `b` (mainline): `>=a.b.c` -/
theorem nginx_plus_mainline_numeric (a b c : Nat) (hb : b % 2 = 1) :
    nginxNative nginxSemver (relText a b c ++ ['+']) = .ok [.mk .ge (relText a b c)] := by
  rw [nginx_single]
  · have := nginx_plus_mainline nginxSemver (relText a b c)
      (⟨a, b, c, [], []⟩ : Semver.Raw)
      (relText_not_mem a b c '-' (by decide) (by decide))
      (relText_not_mem a b c '+' (by decide) (by decide))
      (nginxSemver_make_relText a b c) (by simp [nginxSemver_isStable, hb])
    rw [this]
    show Except.ok [Con.mk Cmpr.ge (Semver.str ⟨a, b, c, [], []⟩)] = _
    rw [semver_str_release]
  · intro x hx
    simp only [List.mem_append, List.mem_singleton] at hx
    rcases hx with h | h
    · rcases relText_chars a b c x h with h | h
      · exact Or.inl h
      · exact Or.inr (Or.inl h)
    · exact Or.inr (Or.inr (Or.inl h))

theorem nginxSemver_eq_release (a b c d e f : Nat) :
    nginxSemver.eq (⟨a, b, c, [], []⟩ : Semver.Raw) (⟨d, e, f, [], []⟩ : Semver.Raw) =
      decide (a = d ∧ b = e ∧ c = f) := by
  show Semver.verOps.eq _ _ = _
  show Semver.valOps.eq _ _ = _
  rw [Semver.valOps_eq_iff]
  by_cases h : a = d ∧ b = e ∧ c = f
  · obtain ⟨rfl, rfl, rfl⟩ := h; simp
  · have : (⟨a, b, c, [], []⟩ : Semver.Raw) ≠ ⟨d, e, f, [], []⟩ := by
      intro hh; injection hh with h1 h2 h3; exact h ⟨h1, h2, h3⟩
    simp [h, this]

theorem relText_dash_chars (a b c d e f : Nat) :
    ∀ x ∈ relText a b c ++ '-' :: relText d e f,
      x.isDigit = true ∨ x = '.' ∨ x = '+' ∨ x = '-' := by
  intro x hx
  simp only [List.mem_append, List.mem_cons] at hx
  rcases hx with h | h | h
  · rcases relText_chars a b c x h with h | h
    · exact Or.inl h
    · exact Or.inr (Or.inl h)
  · exact Or.inr (Or.inr (Or.inr h))
  · rcases relText_chars d e f x h with h | h
    · exact Or.inl h
    · exact Or.inr (Or.inl h)

/-- (e) `a.b.c-d.e.f` with different ends: `>=a.b.c` and `<=d.e.f` -/
theorem nginx_dash_numeric (a b c d e f : Nat) (hne : ¬ (a = d ∧ b = e ∧ c = f)) :
    nginxNative nginxSemver (relText a b c ++ '-' :: relText d e f) =
      .ok [.mk .ge (relText a b c), .mk .le (relText d e f)] := by
  rw [nginx_single _ _ (relText_dash_chars a b c d e f)]
  have := nginx_dash nginxSemver (relText a b c) (relText d e f)
    (⟨a, b, c, [], []⟩ : Semver.Raw) (⟨d, e, f, [], []⟩ : Semver.Raw)
    (relText_not_mem a b c '-' (by decide) (by decide))
    (nginxSemver_make_relText a b c) (nginxSemver_make_relText d e f)
    (by rw [nginxSemver_eq_release]; simpa using hne)
  rw [this]
  show Except.ok [Con.mk Cmpr.ge (Semver.str ⟨a, b, c, [], []⟩),
    Con.mk Cmpr.le (Semver.str ⟨d, e, f, [], []⟩)] = _
  rw [semver_str_release, semver_str_release]

/-- (e) `x-x` for every `x = a.b.c` is the single version `x` -/
theorem nginx_dash_equal_numeric (a b c : Nat) :
    nginxNative nginxSemver (relText a b c ++ '-' :: relText a b c) =
      .ok [.mk .eq (relText a b c)] := by
  rw [nginx_single _ _ (relText_dash_chars a b c a b c)]
  have := nginx_dash_equal nginxSemver (relText a b c) (relText a b c)
    (⟨a, b, c, [], []⟩ : Semver.Raw) (⟨a, b, c, [], []⟩ : Semver.Raw)
    (relText_not_mem a b c '-' (by decide) (by decide))
    (nginxSemver_make_relText a b c) (nginxSemver_make_relText a b c)
    (by rw [nginxSemver_eq_release]; simp)
  rw [this]
  show Except.ok [Con.mk Cmpr.eq (Semver.str ⟨a, b, c, [], []⟩)] = _
  rw [semver_str_release]

/-- (e) a plain `a.b.c` is that single version -/
theorem nginx_plain_numeric (a b c : Nat) :
    nginxNative nginxSemver (relText a b c) = .ok [.mk .eq (relText a b c)] := by
  rw [nginx_single]
  · have := nginx_plain nginxSemver (relText a b c) (⟨a, b, c, [], []⟩ : Semver.Raw)
      (relText_not_mem a b c '-' (by decide) (by decide))
      (relText_not_mem a b c '+' (by decide) (by decide))
      (nginxSemver_make_relText a b c)
    rw [this]
    show Except.ok [Con.mk Cmpr.eq (Semver.str ⟨a, b, c, [], []⟩)] = _
    rw [semver_str_release]
  · intro x hx
    rcases relText_chars a b c x hx with h | h
    · exact Or.inl h
    · exact Or.inr (Or.inl h)

/-! #### OpenSSL -/

/-- (a) OpenSSL (C06): the text, lower-cased and without whitespace, is a comma-separated list of
versions; each one is stated with `=` -/
theorem openssl_exact (mk : Str → Except TErr Str) (s : Str) (vs : List Str) (hne : vs ≠ [])
    (hnc : ∀ v ∈ vs, ',' ∉ v) (h : lower (removeSpaces s) = joinWith ',' vs) :
    opensslNative mk s = constraintsOf mk (vs.map (fun v => (Cmpr.eq, v))) := by
  unfold opensslNative
  rw [h, splitOn_joinWith ',' vs hne hnc]
  exact collect_single_eq mk (fun v => buildCon mk (some ['=']) v) (fun v => (Cmpr.eq, v)) vs
    (fun v _ => buildCon_cmprText mk .eq v)


end Univers.Text.Advisory
