/-
Agreement theorems for `VersionRange.__str__` and `VersionRange.to_dict` as translated from `univers/version_range.py`
on every run (`Univers/Gen/PyTextRangeStr.lean`, `PyTextRangeToDict.lean`): printing a range is sorting its constraints
(Layer B, the parameter `sortT`) and then the model's `toString` of `Univers/Text/Vers.lean`; `to_dict` is the model's
`toDict`.  These are what the round-trip theorems of C05 and the presentation theorems of C13 are about.
-/
import Univers.Gen.PyTextRangeStr
import Univers.Gen.PyTextRangeToDict
import Univers.Text.GenTextThm

namespace Univers.Gen.Text
open Univers Univers.PyRt Univers.Text Univers.Text.Str Univers.Text.Vers Univers.Text.PyText

variable (mk : List Char → Except TErr (List Char)) (sortT : List TCon → Except TErr (List TCon))

theorem mapM_ok {α β : Type} (f : α → β) (l : List α) :
    l.mapM (fun a => (Except.ok (f a) : Except TErr β)) = .ok (l.map f) := by
  induction l with
  | nil => rfl
  | cons a as ih => simp only [List.mapM_cons, ih, List.map_cons, bind, Except.bind, pure, Except.pure]

/-- **`VersionRange.__str__` as translated: sort, then the model's `toString`.** -/
theorem vr_str_eq (scheme : List Char) (items : List TCon) :
    vr_str mk sortT (scheme, items) = (sortT items >>= fun s => .ok (Vers.toString scheme s)) := by
  unfold vr_str Vers.toString
  simp only [bind, Except.bind]
  cases sortT items with
  | error e => rfl
  | ok s =>
    have : (fun c => vc_str mk c) = (fun c => (Except.ok (conStr c) : Except TErr (List Char))) := by
      funext c; exact vc_str_eq mk c
    simp only [this, mapM_ok, List.append_assoc]

/-- on a constraint list that sorting leaves alone (a range object holds its constraints sorted) the printed text is
the model's `toString` of that list -/
theorem vr_str_sorted (scheme : List Char) (items : List TCon) (h : sortT items = .ok items) :
    vr_str mk sortT (scheme, items) = .ok (Vers.toString scheme items) := by
  rw [vr_str_eq, h]; rfl

/-- **`VersionRange.to_dict` as translated is the model's `toDict`.** -/
theorem vr_to_dict_eq (scheme : List Char) (items : List TCon) :
    vr_to_dict mk sortT (scheme, items) = .ok (Vers.toDict scheme items) := by
  unfold vr_to_dict Vers.toDict
  have : (fun c => vc_to_dict mk c) = (fun c => (Except.ok (conToDict c) : Except TErr (List Char × List Char))) := by
    funext c; exact vc_to_dict_eq mk c
  simp only [this, mapM_ok, bind, Except.bind]

example : vr_str (fun v => .ok v) (fun l => .ok l) ("npm".toList, [.mk .ge "1.0.0".toList, .mk .lt "2.0.0".toList])
    = .ok "vers:npm/>=1.0.0|<2.0.0".toList := by rfl

end Univers.Gen.Text
