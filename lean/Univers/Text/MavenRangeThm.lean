/-
Text layer — THEOREMS about the Maven / NuGet bracket-range converter
(model `MavenRange.lean`, spec `MavenRangeSpec.lean`).
-/
import Univers.Text.MavenRangeSpec
import Univers.Scheme.MavenThm
import Univers.Scheme.Nuget

namespace Univers.Text.MavenRange

open Univers Univers.Text

/-! ### string lemmas -/

theorem dropWhile_of_all_not {p : Char → Bool} {s : List Char} (h : s.all (fun c => !p c) = true) :
    s.dropWhile p = s := by
  cases s with
  | nil => rfl
  | cons c cs =>
    simp only [List.all_cons, Bool.and_eq_true, Bool.not_eq_true'] at h
    simp [h.1]

theorem strip_of_all {s : List Char} (h : s.all (fun c => !isPySpace c) = true) : strip s = s := by
  unfold strip
  rw [dropWhile_of_all_not h, dropWhile_of_all_not (by rwa [List.all_reverse]), List.reverse_reverse]

theorem dropWhile_concat_ne_nil {p : Char → Bool} (l : List Char) {c : Char} (h : p c = false) :
    (l ++ [c]).dropWhile p ≠ [] := by
  induction l with
  | nil => simp [h]
  | cons x xs ih =>
    simp only [List.cons_append, List.dropWhile_cons]
    split
    · exact ih
    · simp

/-- `(c :: s).strip()` keeps `c` when it is not whitespace -/
theorem strip_cons_ne_nil {c : Char} (s : List Char) (h : isPySpace c = false) :
    ∃ r, strip (c :: s) = c :: r := by
  unfold strip
  have h1 : (c :: s).dropWhile isPySpace = c :: s := by simp [h]
  rw [h1, List.reverse_cons]
  -- dropping a prefix of `s.reverse ++ [c]` that stops at `c` at the latest
  have key : ∀ l : List Char, ∃ r, ((l ++ [c]).dropWhile isPySpace).reverse = c :: r := by
    intro l
    induction l with
    | nil => exact ⟨[], by simp [h]⟩
    | cons x xs ih =>
      simp only [List.cons_append, List.dropWhile_cons]
      split
      · exact ih
      · exact ⟨(x :: xs).reverse, by simp⟩
  exact key s.reverse

theorem splitOn_of_not_mem {sep : Char} {s : List Char} (h : sep ∉ s) : splitOn sep s = [s] := by
  induction s with
  | nil => rfl
  | cons c cs ih =>
    have hc : c ≠ sep := fun e => h (by simp [e])
    have hcs : sep ∉ cs := fun e => h (by simp [e])
    simp [splitOn, hc, ih hcs]

theorem splitOn_append_sep {sep : Char} {a b : List Char} (ha : sep ∉ a) (hb : sep ∉ b) :
    splitOn sep (a ++ sep :: b) = [a, b] := by
  induction a with
  | nil => simp [splitOn, splitOn_of_not_mem hb]
  | cons c cs ih =>
    have hc : c ≠ sep := fun e => ha (by simp [e])
    have hcs : sep ∉ cs := fun e => ha (by simp [e])
    simp [splitOn, hc, ih hcs]

theorem find_append_hit {ch : Char} {pre rest : List Char} (h : ch ∉ pre) :
    find ch (pre ++ ch :: rest) = some pre.length := by
  induction pre with
  | nil => simp [find]
  | cons c cs ih =>
    have hc : c ≠ ch := fun e => h (by simp [e])
    have hcs : ch ∉ cs := fun e => h (by simp [e])
    simp [find, hc, ih hcs]

theorem find_append_miss {ch : Char} {pre : List Char} (rest : List Char) (h : ch ∉ pre) :
    find ch (pre ++ rest) = (find ch rest).map (· + pre.length) := by
  induction pre with
  | nil => simp
  | cons c cs ih =>
    have hc : c ≠ ch := fun e => h (by simp [e])
    have hcs : ch ∉ cs := fun e => h (by simp [e])
    simp only [List.cons_append, find, hc, if_false, ih hcs, Option.map_map, List.length_cons]
    congr 1

theorem find_le_of_some {ch : Char} {s : List Char} {i : Nat} (h : find ch s = some i) :
    i < s.length := by
  induction s generalizing i with
  | nil => simp [find] at h
  | cons c cs ih =>
    simp only [find] at h
    split at h
    · cases h; simp
    · cases hf : find ch cs with
      | none => simp [hf] at h
      | some j =>
        simp [hf] at h
        have := ih hf
        subst h; simp; omega

/-- `close` is the position of the first closing bracket of either kind -/
theorem closeIdx_first {pre rest : List Char} {c : Char} (hpre : ∀ x ∈ pre, x ≠ ']' ∧ x ≠ ')')
    (hc : c = ']' ∨ c = ')') : closeIdx (pre ++ c :: rest) = some pre.length := by
  have h1 : ']' ∉ pre := fun h => (hpre _ h).1 rfl
  have h2 : ')' ∉ pre := fun h => (hpre _ h).2 rfl
  unfold closeIdx
  rcases hc with rfl | rfl
  · rw [find_append_hit h1, find_append_miss _ h2]
    cases hf : find ')' (']' :: rest) with
    | none => simp
    | some j => simp; omega
  · rw [find_append_hit h2, find_append_miss _ h1]
    cases hf : find ']' (')' :: rest) with
    | none => simp
    | some j => simp

theorem closeIdx_lt {s : List Char} {i : Nat} (h : closeIdx s = some i) : i < s.length := by
  unfold closeIdx at h
  cases h1 : find ']' s with
  | none =>
    rw [h1] at h
    simp only at h
    exact find_le_of_some h
  | some ic =>
    cases h2 : find ')' s with
    | none =>
      rw [h1, h2] at h
      simp only [Option.some.injEq] at h
      subst h
      exact find_le_of_some h1
    | some ec =>
      rw [h1, h2] at h
      simp only at h
      split at h
      · cases h; exact find_le_of_some h2
      · cases h; exact find_le_of_some h1


/-! ### declared errors (C16) -/

theorem restrictionInner_error {vcmp : List Char → List Char → Ordering} {li ui : Bool}
    {inner : List Char} {e : TErr} (h : restrictionInner vcmp li ui inner = .error e) :
    e = errRestriction ∨ e = .ValueError := by
  unfold restrictionInner at h
  simp only at h
  repeat' split at h
  all_goals (cases h <;> simp)

/-- the errors of `Restriction.__init__`: `IndexError` only on a whitespace-only text -/
theorem restriction_error {vcmp : List Char → List Char → Ordering} {spec : List Char} {e : TErr}
    (h : restriction vcmp spec = .error e) :
    (e = .IndexError ∧ strip spec = []) ∨ e = errRestriction ∨ e = .ValueError := by
  unfold restriction at h
  split at h
  · cases h
  · split at h
    · rename_i hs
      cases h
      exact .inl ⟨rfl, hs⟩
    · exact .inr (restrictionInner_error h)

theorem take_succ_of_startsOpen {spec : List Char} (close : Nat) (h : startsOpen spec = true) :
    ∃ c s, spec.take (close + 1) = c :: s ∧ isPySpace c = false := by
  cases spec with
  | nil => simp [startsOpen] at h
  | cons c cs =>
    refine ⟨c, cs.take close, by simp, ?_⟩
    simp only [startsOpen, Bool.or_eq_true, beq_iff_eq] at h
    rcases h with rfl | rfl <;> decide

theorem rangeLoop_error {vcmp : List Char → List Char → Ordering} (fuel : Nat) (spec : List Char)
    (upper : Option (List Char)) {e : TErr} (h : rangeLoop vcmp fuel spec upper = .error e) :
    e = errRange ∨ e = errRestriction ∨ e = .ValueError := by
  induction fuel generalizing spec upper with
  | zero => simp [rangeLoop] at h
  | succ n ih =>
    unfold rangeLoop at h
    split at h
    · rename_i hopen
      split at h
      · cases h; exact .inl rfl
      · rename_i close _
        split at h
        · rename_i e' hr
          cases h
          rcases restriction_error hr with ⟨_, hs⟩ | h' | h'
          · obtain ⟨c, s, hcs, hc⟩ := take_succ_of_startsOpen close hopen
            rw [hcs] at hs
            obtain ⟨r, hr'⟩ := strip_cons_ne_nil s hc
            rw [hr'] at hs; cases hs
          · exact .inr (.inl h')
          · exact .inr (.inr h')
        · split at h
          · cases h; exact .inl rfl
          · split at h
            · rename_i e' hl
              cases h
              exact ih _ _ hl
            · cases h
    · cases h

theorem versionRange_error {vcmp : List Char → List Char → Ordering} {spec : List Char} {e : TErr}
    (h : versionRange vcmp spec = .error e) :
    e = errRange ∨ e = errRestriction ∨ e = .ValueError := by
  unfold versionRange at h
  split at h
  · rename_i e' hl
    cases h
    exact rangeLoop_error _ _ _ hl
  · split at h
    · split at h
      · cases h; exact .inl rfl
      · cases h
    · cases h

theorem declared_of_range_error {e : TErr}
    (h : e = errRange ∨ e = errRestriction ∨ e = .ValueError) : declared e = true := by
  rcases h with rfl | rfl | rfl <;> decide

theorem boundCons_error {mkVer : List Char → Except TErr (List Char)} {c : Cmpr}
    {b : Option (List Char)} {e : TErr} (h : boundCons mkVer c b = .error e) :
    ∃ t, mkVer t = .error e := by
  unfold boundCons at h
  split at h
  · cases h
  · split at h
    · rename_i e' hm; cases h; exact ⟨_, hm⟩
    · cases h

theorem restrictionCons_error {mkVer : List Char → Except TErr (List Char)}
    {vcmp : List Char → List Char → Ordering} {r : Restriction} {e : TErr}
    (h : restrictionCons mkVer vcmp r = .error e) : ∃ t, mkVer t = .error e := by
  unfold restrictionCons at h
  split at h
  · split at h
    · rename_i e' hm; cases h; exact ⟨_, hm⟩
    · cases h
  · split at h
    · rename_i e' hm; cases h; exact boundCons_error hm
    · split at h
      · rename_i e' hm; cases h; exact boundCons_error hm
      · cases h

theorem consOf_error {mkVer : List Char → Except TErr (List Char)}
    {vcmp : List Char → List Char → Ordering} (rs : List Restriction) {e : TErr}
    (h : consOf mkVer vcmp rs = .error e) : ∃ t, mkVer t = .error e := by
  induction rs with
  | nil => simp [consOf] at h
  | cons r rs ih =>
    unfold consOf at h
    split at h
    · rename_i e' hr; cases h; exact restrictionCons_error hr
    · split at h
      · rename_i e' hr; cases h; exact ih hr
      · cases h

/-- **C16 for the Maven / NuGet converter**: whatever the text, `from_native` returns or raises
an error of the `ValueError` family (`ValueError`, `RestrictionParseError`,
`VersionRangeParseError`) or an error raised by the version class on one of the bound texts.
In particular no `IndexError` escapes from `spec.strip()[0]`. -/
theorem maven_native_errors (mkVer : List Char → Except TErr (List Char))
    (vcmp : List Char → List Char → Ordering) (t : List Char) (e : TErr)
    (h : fromNative mkVer vcmp t = .error e) :
    (e = errRange ∨ e = errRestriction ∨ e = .ValueError) ∨ ∃ v, mkVer v = .error e := by
  unfold fromNative at h
  split at h
  · rename_i e' hv; cases h; exact .inl (versionRange_error hv)
  · exact .inr (consOf_error _ h)

/-- **declared errors**: when the version class only raises declared errors (true for
`MavenVersion`, which accepts every text), so does the converter -/
theorem maven_native_declared (mkVer : List Char → Except TErr (List Char))
    (vcmp : List Char → List Char → Ordering)
    (hmk : ∀ v e, mkVer v = .error e → declared e = true) (t : List Char) :
    (∃ cs, fromNative mkVer vcmp t = .ok cs) ∨
      ∃ e, fromNative mkVer vcmp t = .error e ∧ declared e = true := by
  cases h : fromNative mkVer vcmp t with
  | ok cs => exact .inl ⟨cs, rfl⟩
  | error e =>
    refine .inr ⟨e, rfl, ?_⟩
    rcases maven_native_errors mkVer vcmp t e h with h' | ⟨v, hv⟩
    · exact declared_of_range_error h'
    · exact hmk v e hv


/-! ### exactness (C06 / C15) -/

theorem safeChar_spec {c : Char} (h : safeChar c = true) :
    isPySpace c = false ∧ c ≠ ',' ∧ c ≠ '(' ∧ c ≠ ')' ∧ c ≠ '[' ∧ c ≠ ']' := by
  simp [safeChar] at h
  obtain ⟨⟨⟨⟨⟨h1, h2⟩, h3⟩, h4⟩, h5⟩, h6⟩ := h
  exact ⟨h1, h2, h3, h4, h5, h6⟩

theorem safe_ne_nil {t : List Char} (h : safe t = true) : t ≠ [] := by
  intro e; subst e; simp [safe] at h

theorem safe_mem {t : List Char} (h : safe t = true) {c : Char} (hc : c ∈ t) : safeChar c = true := by
  simp only [safe, Bool.and_eq_true, List.all_eq_true] at h
  exact h.2 c hc

theorem safe_all_ns {t : List Char} (h : safe t = true) : t.all (fun c => !isPySpace c) = true := by
  simp only [List.all_eq_true]
  intro c hc
  simp [(safeChar_spec (safe_mem h hc)).1]

theorem safe_not_mem {t : List Char} (h : safe t = true) {c : Char} (hc : safeChar c = false) :
    c ∉ t := by
  intro hm
  rw [safe_mem h hm] at hc; cases hc

theorem optSafe_all_ns {o : Option (List Char)} (h : optSafe o = true) :
    (optText o).all (fun c => !isPySpace c) = true := by
  cases o with
  | none => rfl
  | some t => exact safe_all_ns h

theorem optSafe_not_mem {o : Option (List Char)} (h : optSafe o = true) {c : Char}
    (hc : safeChar c = false) : c ∉ optText o := by
  cases o with
  | none => simp [optText]
  | some t => exact safe_not_mem h hc

theorem optText_empty_iff {o : Option (List Char)} (h : optSafe o = true) :
    (if (optText o).isEmpty then none else some (optText o)) = o := by
  cases o with
  | none => rfl
  | some t =>
    have := safe_ne_nil h
    cases t with
    | nil => exact absurd rfl this
    | cons c cs => rfl

/-- `Restriction(spec)` on a bracketed text without whitespace -/
theorem restriction_bracketed (vcmp : List Char → List Char → Ordering) (ob cb : Char)
    (inner : List Char) (hob : isPySpace ob = false) (hcb : isPySpace cb = false)
    (hin : inner.all (fun c => !isPySpace c) = true) :
    restriction vcmp (ob :: (inner ++ [cb])) = restrictionInner vcmp (ob == '[') (cb == ']') inner := by
  have hall : (ob :: (inner ++ [cb])).all (fun c => !isPySpace c) = true := by
    simp only [List.all_cons, List.all_append, hob, hcb, hin, List.all_nil]; rfl
  unfold restriction
  rw [strip_of_all hall]
  simp only [List.isEmpty_cons, Bool.false_eq_true, if_false, List.drop_one, List.tail_cons,
    List.dropLast_concat, strip_of_all hin]
  congr 1
  have : (ob :: (inner ++ [cb])).getLast? = some cb := by
    rw [← List.cons_append, List.getLast?_concat]
  rw [this]
  by_cases h : cb = ']' <;> simp [h]

theorem restriction_render (vcmp : List Char → List Char → Ordering) (s : Seg)
    (hv : s.valid vcmp = true) : restriction vcmp s.render = .ok s.toRestriction := by
  cases s with
  | exact a =>
    simp only [Seg.valid] at hv
    simp only [Seg.render]
    rw [restriction_bracketed vcmp '[' ']' a (by decide) (by decide) (safe_all_ns hv)]
    have hc : ',' ∉ a := safe_not_mem hv (by decide)
    simp [restrictionInner, hc, Seg.toRestriction]
  | range li lo hi ui =>
    simp only [Seg.valid, Bool.and_eq_true] at hv
    obtain ⟨⟨⟨hlo, hhi⟩, hsome⟩, hpair⟩ := hv
    simp only [Seg.render]
    have hin : (optText lo ++ ',' :: optText hi).all (fun c => !isPySpace c) = true := by
      simp only [List.all_append, List.all_cons, optSafe_all_ns hlo, optSafe_all_ns hhi]; rfl
    rw [restriction_bracketed vcmp (openB li) (closeB ui) _ (by cases li <;> decide)
      (by cases ui <;> decide) hin]
    have hli : (openB li == '[') = li := by cases li <;> rfl
    have hui : (closeB ui == ']') = ui := by cases ui <;> rfl
    rw [hli, hui]
    unfold restrictionInner
    have hc : (optText lo ++ ',' :: optText hi).contains ',' = true := by
      simp
    rw [if_pos hc, splitOn_append_sep (optSafe_not_mem hlo (by decide)) (optSafe_not_mem hhi (by decide))]
    simp only [optText_empty_iff hlo, optText_empty_iff hhi]
    cases lo with
    | none =>
      cases hi with
      | none => simp at hsome
      | some b => simp [optText, Seg.toRestriction]
    | some a =>
      cases hi with
      | none =>
        simp [optText, Seg.toRestriction]
      | some b =>
        simp only [Bool.and_eq_true, bne_iff_ne, ne_eq] at hpair
        obtain ⟨⟨hab, _⟩, hba⟩ := hpair
        simp [optText, Seg.toRestriction, hab, hba]


/-- a rendered set is an opening bracket and a body without closing brackets, then the closing
bracket -/
theorem render_decomp (vcmp : List Char → List Char → Ordering) (s : Seg)
    (hv : s.valid vcmp = true) :
    ∃ body cb, s.render = body ++ [cb] ∧ (∀ x ∈ body, x ≠ ']' ∧ x ≠ ')') ∧
      (cb = ']' ∨ cb = ')') ∧ startsOpen body = true ∧ popComma body = body := by
  cases s with
  | exact a =>
    refine ⟨'[' :: a, ']', rfl, ?_, .inl rfl, rfl, rfl⟩
    intro x hx
    simp only [Seg.valid] at hv
    rcases List.mem_cons.mp hx with rfl | hx
    · decide
    · have := safeChar_spec (safe_mem hv hx)
      exact ⟨this.2.2.2.2.2, this.2.2.2.1⟩
  | range li lo hi ui =>
    simp only [Seg.valid, Bool.and_eq_true] at hv
    obtain ⟨⟨⟨hlo, hhi⟩, _⟩, _⟩ := hv
    refine ⟨openB li :: (optText lo ++ ',' :: optText hi), closeB ui, by simp [Seg.render], ?_,
      by cases ui <;> simp [closeB], by cases li <;> rfl, by cases li <;> rfl⟩
    intro x hx
    have hopt : ∀ o : Option (List Char), optSafe o = true → x ∈ optText o → x ≠ ']' ∧ x ≠ ')' := by
      intro o ho hm
      constructor
      · intro e; subst e; exact optSafe_not_mem ho (by decide) hm
      · intro e; subst e; exact optSafe_not_mem ho (by decide) hm
    rcases List.mem_cons.mp hx with rfl | hx
    · cases li <;> decide
    · rcases List.mem_append.mp hx with hx | hx
      · exact hopt lo hlo hx
      · rcases List.mem_cons.mp hx with rfl | hx
        · decide
        · exact hopt hi hhi hx

theorem render_length_pos (s : Seg) : 0 < s.render.length := by
  cases s <;> simp [Seg.render]

theorem spelled_popComma {e : List Seg} {t : List Char} (h : Spelled e t) : popComma t = t := by
  cases h with
  | nil => rfl
  | cons s es t' _ =>
    cases s with
    | exact a => rfl
    | range li lo hi ui => cases li <;> rfl
  | consComma s es t' _ =>
    cases s with
    | exact a => rfl
    | range li lo hi ui => cases li <;> rfl

theorem toRestriction_lower (s : Seg) : s.toRestriction.lower = s.lower := by cases s <;> rfl
theorem toRestriction_upper (s : Seg) : s.toRestriction.upper = s.upper := by cases s <;> rfl

/-- one iteration of the loop on a text that starts with a rendered set -/
theorem rangeLoop_step (vcmp : List Char → List Char → Ordering) (s : Seg) (rest : List Char)
    (n : Nat) (up : Option (List Char)) (hv : s.valid vcmp = true)
    (hov : overlaps vcmp up s.toRestriction = false) :
    rangeLoop vcmp (n + 1) (s.render ++ rest) up =
      match rangeLoop vcmp n (popComma rest) s.upper with
      | .error e => .error e
      | .ok (rs, tail) => .ok (s.toRestriction :: rs, tail) := by
  obtain ⟨body, cb, hr, hbody, hcb, hopen, _⟩ := render_decomp vcmp s hv
  have hopen' : startsOpen (s.render ++ rest) = true := by
    rw [hr]
    cases body with
    | nil => simp [startsOpen] at hopen
    | cons c cs => simpa [startsOpen] using hopen
  have hclose : closeIdx (s.render ++ rest) = some body.length := by
    rw [hr, List.append_assoc]
    exact closeIdx_first hbody hcb
  have hlen : body.length + 1 = s.render.length := by rw [hr]; simp
  have htake : (s.render ++ rest).take (body.length + 1) = s.render := by
    rw [hlen]; exact List.take_left
  have hdrop : (s.render ++ rest).drop (body.length + 1) = rest := by
    rw [hlen]; exact List.drop_left
  rw [rangeLoop, if_pos hopen', hclose]
  simp only [htake, restriction_render vcmp s hv, hov, hdrop, Bool.false_eq_true, if_false,
    toRestriction_upper]
  rfl

theorem overlaps_of_chainOk {vcmp : List Char → List Char → Ordering} {up : Option (List Char)}
    {s : Seg} {ss : List Seg} (h : chainOk vcmp up (s :: ss) = true) :
    overlaps vcmp up s.toRestriction = false ∧ chainOk vcmp s.upper ss = true := by
  simp only [chainOk, Bool.and_eq_true] at h
  refine ⟨?_, h.2⟩
  unfold overlaps
  rw [toRestriction_lower]
  cases up with
  | none => rfl
  | some u =>
    cases hl : s.lower with
    | none => simp [hl] at h
    | some l =>
      have := h.1
      simp only [hl, bne_iff_ne, ne_eq] at this
      simp [this]

theorem rangeLoop_nil (vcmp : List Char → List Char → Ordering) (fuel : Nat)
    (up : Option (List Char)) : rangeLoop vcmp fuel [] up = .ok ([], []) := by
  cases fuel <;> simp [rangeLoop, startsOpen]

/-- the loop consumes a spelled expression completely and yields its restrictions -/
theorem rangeLoop_spelled (vcmp : List Char → List Char → Ordering) {e : List Seg} {t : List Char}
    (hs : Spelled e t) : ∀ (fuel : Nat) (up : Option (List Char)), t.length ≤ fuel →
      e.all (Seg.valid vcmp) = true → chainOk vcmp up e = true →
      rangeLoop vcmp fuel t up = .ok (e.map Seg.toRestriction, []) := by
  induction hs with
  | nil => intro fuel up _ _ _; exact rangeLoop_nil vcmp fuel up
  | cons s es t' hs' ih =>
    intro fuel up hlen hall hchain
    simp only [List.all_cons, Bool.and_eq_true] at hall
    obtain ⟨hov, hch⟩ := overlaps_of_chainOk hchain
    have hpos := render_length_pos s
    have hl : (s.render ++ t').length = s.render.length + t'.length := List.length_append
    cases fuel with
    | zero => omega
    | succ n =>
      rw [rangeLoop_step vcmp s t' n up hall.1 hov, spelled_popComma hs',
        ih n s.upper (by omega) hall.2 hch]
      rfl
  | consComma s es t' hs' ih =>
    intro fuel up hlen hall hchain
    simp only [List.all_cons, Bool.and_eq_true] at hall
    obtain ⟨hov, hch⟩ := overlaps_of_chainOk hchain
    have hl : (s.render ++ ',' :: t').length = s.render.length + (t'.length + 1) := by
      rw [List.length_append]; rfl
    cases fuel with
    | zero => omega
    | succ n =>
      rw [rangeLoop_step vcmp s (',' :: t') n up hall.1 hov]
      simp only [popComma]
      rw [ih n s.upper (by omega) hall.2 hch]
      rfl

theorem versionRange_spelled (vcmp : List Char → List Char → Ordering) {e : List Seg}
    {t : List Char} (hs : Spelled e t) (hv : Valid vcmp e = true) :
    versionRange vcmp t = .ok (e.map Seg.toRestriction) := by
  simp only [Valid, Bool.and_eq_true] at hv
  unfold versionRange
  rw [rangeLoop_spelled vcmp hs t.length none (Nat.le_refl _) hv.1 hv.2]
  simp

theorem restrictionCons_seg (mkVer : List Char → Except TErr (List Char))
    (vcmp : List Char → List Char → Ordering) (f : List Char → List Char) (s : Seg)
    (hv : s.valid vcmp = true) (hmk : ∀ v ∈ s.versions, mkVer v = .ok (f v)) :
    restrictionCons mkVer vcmp s.toRestriction = .ok (s.cons f) := by
  cases s with
  | exact a =>
    have := hmk a (by simp [Seg.versions])
    simp [restrictionCons, Seg.toRestriction, boundsEq, boundStr, this, Seg.cons]
  | range li lo hi ui =>
    simp only [Seg.valid, Bool.and_eq_true] at hv
    obtain ⟨⟨_, hsome⟩, hpair⟩ := hv
    have hbe : boundsEq vcmp (Seg.range li lo hi ui).toRestriction = false := by
      simp only [boundsEq, Seg.toRestriction, Bool.false_or]
      cases lo with
      | none => cases hi with
        | none => simp at hsome
        | some b => rfl
      | some a => cases hi with
        | none => rfl
        | some b =>
          simp only [Bool.and_eq_true, bne_iff_ne, ne_eq] at hpair
          simp [hpair.1.2]
    unfold restrictionCons
    rw [hbe]
    simp only [Bool.false_eq_true, if_false, Seg.toRestriction, Seg.cons, lowerCmpr, upperCmpr]
    cases lo with
    | none =>
      cases hi with
      | none => rfl
      | some b =>
        have := hmk b (by simp [Seg.versions])
        cases ui <;> simp [boundCons, this]
    | some a =>
      have ha := hmk a (by simp [Seg.versions])
      cases hi with
      | none => cases li <;> simp [boundCons, ha]
      | some b =>
        have hb := hmk b (by simp [Seg.versions])
        cases li <;> cases ui <;> simp [boundCons, ha, hb]

theorem consOf_segs (mkVer : List Char → Except TErr (List Char))
    (vcmp : List Char → List Char → Ordering) (f : List Char → List Char) (e : List Seg)
    (hv : e.all (Seg.valid vcmp) = true) (hmk : ∀ v ∈ versionsE e, mkVer v = .ok (f v)) :
    consOf mkVer vcmp (e.map Seg.toRestriction) = .ok (consE f e) := by
  induction e with
  | nil => rfl
  | cons s ss ih =>
    simp only [List.all_cons, Bool.and_eq_true] at hv
    simp only [versionsE, List.flatMap_cons, List.mem_append] at hmk
    simp only [List.map_cons, consOf,
      restrictionCons_seg mkVer vcmp f s hv.1 (fun v h => hmk v (.inl h)),
      ih hv.2 (fun v h => hmk v (.inr h)), consE]

/-- **Exactness of the Maven / NuGet converter** (C06 maven/nuget part): for every expression `e`
of bracket sets `[a,b]`, `(a,b)`, `[a,b)`, `(a,b]`, `[a,)`, `(a,)`, `(,b]`, `(,b)`, `[a]` that is
`Valid` (safe version texts, bounds in order, sets in order) and every accepted spelling `t` of it
(sets followed by optional commas, blanks anywhere), if the version class accepts the bound texts
(`mkVer v = .ok (f v)`), `from_native(t)` yields exactly the constraints the expression states:
`>=`/`>` `f a` for a lower bound, `<=`/`<` `f b` for an upper bound, `=` `f a` for `[a]`, in
order. -/
theorem maven_interval_exact (mkVer : List Char → Except TErr (List Char))
    (vcmp : List Char → List Char → Ordering) (f : List Char → List Char)
    (e : List Seg) (t : List Char) (hr : Renders e t) (hv : Valid vcmp e = true)
    (hmk : ∀ v ∈ versionsE e, mkVer v = .ok (f v)) :
    fromNative mkVer vcmp t = .ok (consE f e) := by
  unfold fromNative
  rw [versionRange_spelled vcmp hr hv]
  simp only [Valid, Bool.and_eq_true] at hv
  exact consOf_segs mkVer vcmp f e hv.1 hmk


/-! ### the produced constraints against the native matcher `Restriction.__contains__` -/

section sound
variable (vcmp : List Char → List Char → Ordering)

theorem lowerSat_eq [Std.OrientedCmp vcmp] (x l : List Char) (incl : Bool) :
    conSat vcmp x (.mk (if incl then .ge else .gt) l) =
      (if vcmp l x == .eq && !incl then false else if vcmp l x == .gt then false else true) := by
  rw [Std.OrientedCmp.eq_swap (cmp := vcmp) (a := l) (b := x)]
  cases incl <;> simp only [conSat, if_true, Bool.false_eq_true, if_false] <;> cases vcmp x l <;> rfl

theorem upperSat_eq [Std.OrientedCmp vcmp] (x u : List Char) (incl : Bool) :
    conSat vcmp x (.mk (if incl then .le else .lt) u) =
      (if vcmp u x == .eq && !incl then false else if vcmp u x == .lt then false else true) := by
  rw [Std.OrientedCmp.eq_swap (cmp := vcmp) (a := u) (b := x)]
  cases incl <;> simp only [conSat, if_true, Bool.false_eq_true, if_false] <;> cases vcmp x u <;> rfl

/-- the common part of the two soundness theorems: orientation, and in the
`lower_bound == upper_bound` branch the fact `hcongr` that the two (equal) bounds compare alike
with `x` -/
theorem sound_core [Std.OrientedCmp vcmp] (r : Restriction) (hs : r.sound vcmp = true)
    (cs : List TCon) (hc : restrictionCons (fun t => .ok t) vcmp r = .ok cs) (x : List Char)
    (hcongr : ∀ a b, r.lower = some a → r.upper = some b → boundsEq vcmp r = true →
      vcmp a x = vcmp b x) :
    cs.all (conSat vcmp x) = r.contains vcmp x := by
  obtain ⟨lower, upper, li, ui, same⟩ := r
  simp only [Restriction.sound, Bool.and_eq_true, Bool.or_eq_true, Bool.not_eq_true'] at hs
  obtain ⟨⟨hsome, hsame⟩, hincl⟩ := hs
  unfold restrictionCons at hc
  by_cases hbe : boundsEq vcmp ⟨lower, upper, li, ui, same⟩ = true
  · -- the `=` branch: two present bounds that compare equal, both inclusive
    rw [if_pos hbe] at hc
    rcases hincl with hincl | hincl
    · rw [hbe] at hincl; cases hincl
    obtain ⟨rfl, rfl⟩ := hincl
    have hab : ∃ a b, lower = some a ∧ upper = some b := by
      simp only [boundsEq, Bool.or_eq_true] at hbe
      cases lower with
      | none =>
        cases upper with
        | none => simp at hsome
        | some b =>
          rcases hbe with h | h
          · subst h; simp at hsame
          · simp at h
      | some a =>
        cases upper with
        | none =>
          rcases hbe with h | h
          · subst h; simp at hsame
          · simp at h
        | some b => exact ⟨a, b, rfl, rfl⟩
    obtain ⟨a, b, rfl, rfl⟩ := hab
    have hcg := hcongr a b rfl rfl hbe
    simp only [boundStr] at hc
    cases hc
    simp only [List.all_cons, List.all_nil, Bool.and_true, conSat, Restriction.contains,
      Bool.not_true, Bool.and_false, Bool.false_eq_true, if_false]
    rw [← hcg, Std.OrientedCmp.eq_swap (cmp := vcmp) (a := a) (b := x)]
    cases vcmp x a <;> rfl
  · rw [if_neg hbe] at hc
    cases lower with
    | none =>
      cases upper with
      | none => simp at hsome
      | some u =>
        simp only [boundCons, List.nil_append] at hc
        cases hc
        simp only [List.all_cons, List.all_nil, Bool.and_true, Restriction.contains,
          upperSat_eq vcmp x u ui]
        rfl
    | some l =>
      cases upper with
      | none =>
        simp only [boundCons, List.append_nil] at hc
        cases hc
        simp only [List.all_cons, List.all_nil, Bool.and_true, Restriction.contains,
          lowerSat_eq vcmp x l li]
        cases (if (vcmp l x == Ordering.eq && !li) = true then false
          else if (vcmp l x == Ordering.gt) = true then false else true) <;> rfl
      | some u =>
        simp only [boundCons] at hc
        cases hc
        simp only [List.cons_append, List.nil_append, List.all_cons, List.all_nil, Bool.and_true,
          Restriction.contains, lowerSat_eq vcmp x l li, upperSat_eq vcmp x u ui]
        cases (if (vcmp l x == Ordering.eq && !li) = true then false
          else if (vcmp l x == Ordering.gt) = true then false else true) <;> rfl

/-- **Soundness of the produced constraints against the native matcher** (per restriction): for a
lawful comparison of `maven.Version`s (`Std.TransCmp`) and version texts the version class returns
unchanged (`mkVer = .ok`), a version text `x` satisfies all the constraints the converter produces
for the restriction `r` iff `x in r` (`Restriction.__contains__`) — for the restrictions that are
`Restriction.sound`.  The excluded regions are real defects, see the counterexamples. -/
theorem maven_native_sound [Std.TransCmp vcmp] (r : Restriction) (hs : r.sound vcmp = true)
    (cs : List TCon) (hc : restrictionCons (fun t => .ok t) vcmp r = .ok cs) (x : List Char) :
    cs.all (conSat vcmp x) = r.contains vcmp x := by
  apply sound_core vcmp r hs cs hc x
  intro a b ha hb hbe
  apply Std.TransCmp.congr_left
  simp only [boundsEq, ha, hb, Bool.or_eq_true, beq_iff_eq] at hbe
  rcases hbe with h | h
  · simp only [Restriction.sound, Bool.and_eq_true, Bool.or_eq_true, Bool.not_eq_true'] at hs
    rcases hs.1.2 with h' | h'
    · rw [h] at h'; cases h'
    · rw [ha, hb] at h'
      have : a = b := by simpa using h'
      subst this
      exact Std.ReflCmp.compare_self
  · exact h

/-- the same with orientation only (`vcmp a b = (vcmp b a).swap`, which the real comparison of
`maven.Version` satisfies although it is not transitive): every `sound` restriction whose two
bounds are not two DIFFERENT texts of equal versions — i.e. everything but `[a,b]` with `a == b` -/
theorem maven_native_sound_oriented [Std.OrientedCmp vcmp] (r : Restriction)
    (hs : r.sound vcmp = true) (hsame : boundsEq vcmp r = true → r.same = true)
    (cs : List TCon) (hc : restrictionCons (fun t => .ok t) vcmp r = .ok cs) (x : List Char) :
    cs.all (conSat vcmp x) = r.contains vcmp x := by
  apply sound_core vcmp r hs cs hc x
  intro a b ha hb hbe
  simp only [Restriction.sound, Bool.and_eq_true, Bool.or_eq_true, Bool.not_eq_true'] at hs
  rcases hs.1.2 with h' | h'
  · rw [hsame hbe] at h'; cases h'
  · rw [ha, hb] at h'
    have : a = b := by simpa using h'
    rw [this]

/-- `same` is only set together with identical bound texts -/
theorem restriction_same {spec : List Char} {r : Restriction}
    (h : restriction vcmp spec = .ok r) : r.same = true → r.lower = r.upper := by
  unfold restriction at h
  split at h
  · cases h; intro h'; cases h'
  · split at h
    · cases h
    · unfold restrictionInner at h
      simp only at h
      repeat' split at h
      all_goals (cases h <;> simp)

/-- the constraints of a well-formed set of the notation say what the set means -/
theorem seg_cons_mem (x : List Char) (s : Seg) :
    (s.cons id).all (conSat vcmp x) = s.mem vcmp x := by
  cases s with
  | exact a => simp [Seg.cons, Seg.mem, conSat]
  | range li lo hi ui =>
    cases lo <;> cases hi <;> cases li <;> cases ui <;>
      simp [Seg.cons, Seg.mem, conSat, lowerCmpr, upperCmpr]

end sound

/-! ### the defects: where the produced constraints do NOT say what the native matcher says -/

/-- **The soft requirement** (known defect): a bare version such as `"1.0"` parses to the
"everything" restriction with both bounds `None`; `lower_bound == upper_bound` holds, and the
converter emits `=` with the version text `str(None) = "None"`: `vers:maven/None`.  For NuGet the
version class rejects `"None"` with `InvalidVersion`. -/
theorem maven_soft_requirement_counterexample (mkVer : List Char → Except TErr (List Char))
    (vcmp : List Char → List Char → Ordering) :
    fromNative mkVer vcmp ['1', '.', '0'] =
      (match mkVer ['N', 'o', 'n', 'e'] with
       | .error e => .error e
       | .ok v => .ok [.mk .eq v]) ∧
    versionRange vcmp ['1', '.', '0'] = .ok [everything] ∧
    (∀ x, everything.contains vcmp x = true) := by
  refine ⟨?_, rfl, fun x => rfl⟩
  show consOf mkVer vcmp [everything] = _
  simp only [consOf, restrictionCons, boundsEq, everything, boundStr, Bool.false_or, if_true]
  have : "None".toList = ['N', 'o', 'n', 'e'] := rfl
  rw [this]
  cases mkVer ['N', 'o', 'n', 'e'] <;> rfl

/-- `(a,b)`, `[a,b)`, `(a,b]` with `a` and `b` different texts of EQUAL versions (Python witness:
`MavenVersionRange.from_native("(1.0,1)")` is `vers:maven/1.0`): the converter emits `= a`, which
`a` satisfies, but the native restriction contains nothing — not even `a`. -/
theorem maven_exclusive_equal_bounds_counterexample (vcmp : List Char → List Char → Ordering)
    (a b : List Char) (ui : Bool) (hab : vcmp a b = .eq) (haa : vcmp a a = .eq) :
    restrictionCons (fun t => .ok t) vcmp ⟨some a, some b, false, ui, false⟩ = .ok [.mk .eq a] ∧
    conSat vcmp a (.mk .eq a) = true ∧
    Restriction.contains vcmp ⟨some a, some b, false, ui, false⟩ a = false := by
  simp [restrictionCons, boundsEq, hab, boundStr, conSat, haa, Restriction.contains]


/-! ### range level, named forms, examples -/

/-- the union reading: the constraints of `from_native` come in one group per restriction, and a
version is in the native range iff it satisfies all the constraints of one group — when every
restriction is `sound`.  (How `VersionRange.__contains__` of univers reads the FLAT sorted list is
Layer B.) -/
theorem maven_native_sound_range (vcmp : List Char → List Char → Ordering) [Std.TransCmp vcmp]
    (rs : List Restriction) (hs : ∀ r ∈ rs, r.sound vcmp = true) :
    ∃ groups : List (List TCon),
      consOf (fun t => .ok t) vcmp rs = .ok groups.flatten ∧ groups.length = rs.length ∧
      ∀ x, groups.any (fun g => g.all (conSat vcmp x)) = rangeContains vcmp rs x := by
  induction rs with
  | nil => exact ⟨[], rfl, rfl, fun _ => rfl⟩
  | cons r rs ih =>
    obtain ⟨gs, hgs, hlen, hx⟩ := ih (fun r' h => hs r' (List.mem_cons_of_mem _ h))
    cases hr : restrictionCons (fun t => .ok t) vcmp r with
    | error e =>
      obtain ⟨t, ht⟩ := restrictionCons_error hr
      cases ht
    | ok g =>
      refine ⟨g :: gs, by simp [consOf, hr, hgs], by simp [hlen], fun x => ?_⟩
      have := maven_native_sound vcmp r (hs r List.mem_cons_self) g hr x
      simp only [List.any_cons, this, hx x, rangeContains]

section forms
variable (mkVer : List Char → Except TErr (List Char)) (vcmp : List Char → List Char → Ordering)
  (f : List Char → List Char)

/-- `[a,b]`, `(a,b)`, `[a,b)`, `(a,b]` ↦ `>=a,<=b`, `>a,<b`, `>=a,<b`, `>a,<=b` -/
theorem maven_interval_exact_pair (li ui : Bool) (a b : List Char)
    (hv : (Seg.range li (some a) (some b) ui).valid vcmp = true)
    (ha : mkVer a = .ok (f a)) (hb : mkVer b = .ok (f b)) :
    fromNative mkVer vcmp (openB li :: (a ++ ',' :: b ++ [closeB ui])) =
      .ok [.mk (lowerCmpr li) (f a), .mk (upperCmpr ui) (f b)] := by
  have hr : Renders [Seg.range li (some a) (some b) ui] (openB li :: (a ++ ',' :: b ++ [closeB ui])) := by
    have hnb : removeBlanks (openB li :: (a ++ ',' :: b ++ [closeB ui])) =
        openB li :: (a ++ ',' :: b ++ [closeB ui]) := by
      simp only [Seg.valid, Bool.and_eq_true, optSafe] at hv
      unfold removeBlanks
      rw [List.filter_eq_self]
      intro c hc
      have key : isPySpace c = false → (c != ' ') = true := by
        intro h; rw [bne_iff_ne]; intro e; subst e; revert h; decide
      simp only [List.mem_cons, List.mem_append, List.mem_nil_iff, or_false] at hc
      rcases hc with rfl | (hc | rfl | hc) | rfl
      · cases li <;> decide
      · exact key (safeChar_spec (safe_mem hv.1.1.1 hc)).1
      · decide
      · exact key (safeChar_spec (safe_mem hv.1.1.2 hc)).1
      · cases ui <;> decide
    unfold Renders
    rw [hnb]
    have := Spelled.cons (Seg.range li (some a) (some b) ui) [] [] Spelled.nil
    simpa [Seg.render, optText] using this
  have := maven_interval_exact mkVer vcmp f _ _ hr (by simp [Valid, hv, chainOk])
    (by intro v hv'; simp [versionsE, Seg.versions] at hv'; rcases hv' with rfl | rfl <;> assumption)
  simpa [consE, Seg.cons] using this

end forms

/-- a toy comparison (by length) to show that the hypotheses are satisfiable -/
def toyCmp (a b : List Char) : Ordering := compare a.length b.length

example : Valid toyCmp [Seg.closed ['1'] ['2', '2'], .range false (some ['3', '3', '3']) none false,
    .exact ['4', '4', '4', '4']] = true := by decide

/-- `" [1, 22],(333,) [4444]"` ↦ `>=1, <=22, >333, =4444` -/
example : fromNative (fun t => .ok t) toyCmp " [1, 22],(333,) [4444]".toList =
    .ok [.mk .ge ['1'], .mk .le ['2', '2'], .mk .gt ['3', '3', '3'], .mk .eq ['4', '4', '4', '4']] :=
  maven_interval_exact _ toyCmp id
    [Seg.closed ['1'] ['2', '2'], .range false (some ['3', '3', '3']) none false,
      .exact ['4', '4', '4', '4']] _
    (Spelled.consComma _ _ _ (Spelled.cons _ _ _ (Spelled.cons _ _ _ Spelled.nil)))
    (by decide) (fun _ _ => rfl)

/-- the tuple-unpacking `ValueError` of `[1,2,3]` (declared family, but a bare `ValueError`) -/
example (vcmp : List Char → List Char → Ordering) (mkVer : List Char → Except TErr (List Char)) :
    fromNative mkVer vcmp "[1,2,3]".toList = .error .ValueError := rfl

/-! ### instantiation with the Layer-A models `Univers.Maven`, `Univers.Nuget`

The same definitions as `mavenVcmp`, `mavenMk`, `nugetMk` of `Univers/Driver/MavenConan.lean`,
which is what the correspondence check runs against the real code. -/

instance : DecidableEq TCon
  | .star, .star => isTrue rfl
  | .star, .mk _ _ => isFalse (by intro h; cases h)
  | .mk _ _, .star => isFalse (by intro h; cases h)
  | .mk c v, .mk c' v' =>
    if h : c = c' ∧ v = v' then isTrue (by rw [h.1, h.2])
    else isFalse (by intro e; cases e; exact h ⟨rfl, rfl⟩)

instance exceptDecEq {ε α : Type} [DecidableEq ε] [DecidableEq α] : DecidableEq (Except ε α)
  | .ok a, .ok b =>
    if h : a = b then isTrue (by rw [h]) else isFalse (by intro e; cases e; exact h rfl)
  | .error a, .error b =>
    if h : a = b then isTrue (by rw [h]) else isFalse (by intro e; cases e; exact h rfl)
  | .ok _, .error _ => isFalse (by intro h; cases h)
  | .error _, .ok _ => isFalse (by intro h; cases h)

/-- `maven.Version(a).__cmp__(maven.Version(b))` on the texts -/
def realVcmp (a b : List Char) : Ordering :=
  Maven.cmpList (Maven.parse (strip a)) (Maven.parse (strip b))

/-- `str(MavenVersion(text))` -/
def mavenMk (t : List Char) : Except TErr (List Char) :=
  match Maven.construct t with
  | .ok r => .ok (Maven.str r)
  | .error .invalid => .error .InvalidVersion
  | .error (.other n) => .error (.other n)

/-- `str(NugetVersion(text))` -/
def nugetMk (t : List Char) : Except TErr (List Char) :=
  match Nuget.construct t with
  | .ok r => .ok (Nuget.str r)
  | .error .invalid => .error .InvalidVersion
  | .error (.other n) => .error (.other n)

/-- the real comparison is oriented (Layer A: `Maven.cmpList_swap`) — it is NOT transitive
(`Maven.trans_counterexample`, `Maven.incomp_trans_counterexample`) -/
instance : Std.OrientedCmp realVcmp where
  eq_swap := Maven.cmpList_swap _ _

/-- soundness against `Restriction.__contains__` with the REAL comparison of `maven.Version`:
all `sound` restrictions except `[a,b]` with different texts of equal versions -/
theorem maven_native_sound_real (r : Restriction) (hs : r.sound realVcmp = true)
    (hsame : boundsEq realVcmp r = true → r.same = true) (cs : List TCon)
    (hc : restrictionCons (fun t => .ok t) realVcmp r = .ok cs) (x : List Char) :
    cs.all (conSat realVcmp x) = r.contains realVcmp x :=
  maven_native_sound_oriented realVcmp r hs hsame cs hc x

/-- **`[a,b]` with different texts of equal versions, real comparison** (defect; Python witness
`MavenVersionRange.from_native("[1,1-0.1]")` is `vers:maven/1`, which `MavenVersion("1-0.2")`
satisfies, while `maven.Version("1-0.2") in maven.VersionRange("[1,1-0.1]")` is `False`):
`1 == 1-0.1` and `1 == 1-0.2` but `1-0.1 < 1-0.2` -/
theorem maven_equal_bounds_counterexample :
    fromNative mavenMk realVcmp "[1,1-0.1]".toList = .ok [.mk .eq ['1']] ∧
    conSat realVcmp "1-0.2".toList (.mk .eq ['1']) = true ∧
    sat realVcmp "[1,1-0.1]".toList "1-0.2".toList = .ok false := by
  refine ⟨by decide +kernel, by decide +kernel, by decide +kernel⟩

/-- the soft requirement with the real version classes: `vers:maven/None`; for NuGet the version
class rejects `"None"` with `InvalidVersion` (declared) -/
theorem maven_soft_requirement_real :
    fromNative mavenMk realVcmp "1.0".toList = .ok [.mk .eq "None".toList] ∧
    fromNative nugetMk realVcmp "1.0".toList = .error .InvalidVersion := by
  refine ⟨by decide +kernel, by decide +kernel⟩

theorem mavenMk_eq (t : List Char) : mavenMk t = .ok (Maven.normalizeStr t) := rfl

/-- **exactness with the real comparison and the real `MavenVersion`**: the version texts of the
constraints are the bound texts normalized by `Version.normalize` (all whitespace removed, leading
`v`/`V` stripped), e.g. `[v1,2]` ↦ `>=1, <=2` -/
theorem maven_interval_exact_real (e : List Seg) (t : List Char) (hr : Renders e t)
    (hv : Valid realVcmp e = true) :
    fromNative mavenMk realVcmp t = .ok (consE Maven.normalizeStr e) :=
  maven_interval_exact mavenMk realVcmp Maven.normalizeStr e t hr hv (fun v _ => mavenMk_eq v)

example : fromNative mavenMk realVcmp "[1.0, 2.0), [3-beta,)".toList =
    .ok [.mk .ge "1.0".toList, .mk .lt "2.0".toList, .mk .ge "3-beta".toList] := by
  have h := maven_interval_exact_real
    [.range true (some "1.0".toList) (some "2.0".toList) false,
      .range true (some "3-beta".toList) none false] "[1.0, 2.0), [3-beta,)".toList
    (Spelled.consComma _ _ _ (Spelled.cons _ _ _ Spelled.nil)) (by decide +kernel)
  exact h

/-- `maven.Version` does not strip a leading `v` (only `MavenVersion` does): `v3-beta` starts with
the string item `v`, which sorts below every number, so the second set "overlaps" the first -/
example : fromNative mavenMk realVcmp "[1.0,2.0),[v3-beta,)".toList = .error errRange := by
  decide +kernel

/-- **declared errors, Maven**: `MavenVersion` accepts every text, so `from_native` returns or
raises `ValueError` / `RestrictionParseError` / `VersionRangeParseError` — for every text -/
theorem maven_native_declared_real (vcmp : List Char → List Char → Ordering) (t : List Char) :
    (∃ cs, fromNative mavenMk vcmp t = .ok cs) ∨
      ∃ e, fromNative mavenMk vcmp t = .error e ∧ declared e = true :=
  maven_native_declared mavenMk vcmp (fun v e h => by simp [mavenMk, Maven.construct] at h) t

theorem nugetMk_error {v : List Char} {e : TErr} (h : nugetMk v = .error e) :
    e = .InvalidVersion := by
  unfold nugetMk at h
  split at h
  · cases h
  · cases h; rfl
  · rename_i n hn
    unfold Nuget.construct at hn
    simp only at hn
    repeat' split at hn
    all_goals cases hn

/-- **declared errors, NuGet**: `NugetVersion(...)` raises `InvalidVersion` only, so `from_native`
returns or raises an error of the `ValueError` family — for every text.  (`NugetVersion("")` is
no longer accepted with the value `None`, so the constructor's `sorted` cannot raise either.) -/
theorem nuget_native_declared_real (vcmp : List Char → List Char → Ordering) (t : List Char) :
    (∃ cs, fromNative nugetMk vcmp t = .ok cs) ∨
      ∃ e, fromNative nugetMk vcmp t = .error e ∧ declared e = true :=
  maven_native_declared nugetMk vcmp (fun v e h => by rw [nugetMk_error h]; rfl) t

end Univers.Text.MavenRange
