/-
Layer C model of the RubyGems native range converter:
`GemVersionRange.from_native` (`/repo/src/univers/version_range.py`) and the part of
`/repo/src/univers/gem.py` it runs through: `GemRequirement.from_string`, `__init__`, `create`,
`parse` (regex `PATTERN`), `simplify`, `dedupe`, `tilde_requirements`, `sort_constraints`,
`get_tilde_constraints`, `satisfied_by`, `tilde_comparator`.

Versions are the Layer-A model `Univers.Gem` (`Raw`, `gemVersion`, `construct`, `str`, `vercmp`,
`valOps`, `release`, `bump`).

The first section holds the string helpers shared with `PypiNative.lean`
(`Univers/Text/Str.lean` did not exist when this file was written).
-/
import Univers.Text.Err
import Univers.Scheme.Gem

namespace Univers.Text.GP

open Univers

/-- `str.isspace()` / regex `\s` (str pattern) on ASCII: TAB LF VT FF CR FS GS RS US SPACE -/
abbrev isSp : Char → Bool := Gem.isPySpace

/-- `str.strip()` -/
abbrev strip : List Char → List Char := Gem.strip

/-- `str.strip(chars)`: strips a character SET on both sides -/
def stripSet (p : Char → Bool) (s : List Char) : List Char :=
  ((s.dropWhile p).reverse.dropWhile p).reverse

/-- `str.split(sep)` for a one-character separator: keeps empty fields, never returns `[]` -/
def splitOn (sep : Char) : List Char → List (List Char)
  | [] => [[]]
  | c :: cs =>
    if c == sep then [] :: splitOn sep cs
    else match splitOn sep cs with
      | [] => [[c]]
      | h :: t => (c :: h) :: t

/-- `s.startswith(p)` -/
def startsWith (p s : List Char) : Bool := p.isPrefixOf s

/-- `s.endswith(p)` -/
def endsWith (p s : List Char) : Bool := p.reverse.isPrefixOf s.reverse

/-- an exception class name coming from Layer A as a `TErr` -/
def errOfName (n : String) : TErr :=
  if n == "ValueError" then .ValueError
  else if n == "InvalidVersion" then .InvalidVersion
  else if n == "TypeError" then .TypeError
  else if n == "IndexError" then .IndexError
  else if n == "KeyError" then .KeyError
  else if n == "AttributeError" then .AttributeError
  else if n == "AssertionError" then .AssertionError
  else .other n

end Univers.Text.GP

namespace Univers.Text.GemReq

open Univers Univers.Text Univers.Text.GP

/-- the keys of `GemRequirement.comparators_by_op` -/
inductive Op where
  | eq | ne | gt | lt | ge | le | tilde
  deriving DecidableEq, Repr, Inhabited

namespace Op

def text : Op → List Char
  | eq => ['='] | ne => ['!', '='] | gt => ['>'] | lt => ['<']
  | ge => ['>', '='] | le => ['<', '='] | tilde => ['~', '>']

/-- the order of the dict `comparators_by_op`, hence of the alternation `quoted` of the regex -/
def all : List Op := [eq, ne, gt, lt, ge, le, tilde]

/-- rank of the operator text in Python's `str` order:
`"!=" < "<" < "<=" < "=" < ">" < ">=" < "~>"` -/
def rank : Op → Nat
  | ne => 0 | lt => 1 | le => 2 | eq => 3 | gt => 4 | ge => 5 | tilde => 6

/-- `GemVersionRange.vers_by_native_comparators[op]`; `~>` is not a key -/
def cmpr? : Op → Option Cmpr
  | eq => some .eq | ne => some .ne | le => some .le | ge => some .ge
  | lt => some .lt | gt => some .gt | tilde => none

end Op

/-- `GemConstraint(op, version)` -/
structure GC where
  op : Op
  version : Gem.Raw
  deriving DecidableEq, Repr

/-- an error of the Layer-A `GemVersion` operations as the exception that escapes -/
def verErr : Gem.PErr → TErr
  | .invalid => .InvalidVersion
  | .other n => errOfName n

def liftV {α} : Except Gem.PErr α → Except TErr α
  | .ok a => .ok a
  | .error e => .error (verErr e)

/-- `InvalidRequirementError` (a subclass of `AttributeError`!) -/
def invalidRequirement : TErr := .other "InvalidRequirementError"

/-- `GemRequirement.DEFAULT_CONSTRAINT` = `GemConstraint(">=", GemVersion(0))` -/
def defaultConstraint : GC := ⟨.ge, ⟨['0']⟩⟩

/-! ### `GemRequirement.parse` -/

/-- one alternative `o` of group 1 of `PATTERN` on the stripped text: the operator text, `\s*`,
then the rest must be the whole of group 2 (`VERSION_PATTERN`; the final `\s*$` is empty on a
stripped text, and the version pattern matches no white space) -/
def matchWith (t : List Char) (o : Op) : Option (List Char) :=
  if startsWith o.text t then
    let rest := (t.drop o.text.length).dropWhile isSp
    if Gem.run .d0 rest then some rest else none
  else none

/-- `PATTERN.match(requirement)`: `^\s*(=|!=|>|<|>=|<=|~>)?\s*(VERSION_PATTERN)\s*$`.
The regex engine tries the alternatives of group 1 in order, then the empty option, and
backtracks until the rest matches: the groups `(1, 2)` of the first success. -/
def patternMatch (r : List Char) : Option (Option Op × List Char) :=
  let t := strip r
  match Op.all.findSome? (fun o => (matchWith t o).map (fun v => (o, v))) with
  | some (o, v) => some (some o, v)
  | none => if Gem.run .d0 t then some (none, t) else none

/-- `GemRequirement.parse(requirement)` for a `str` argument -/
def parse (r : List Char) : Except TErr GC :=
  match patternMatch r with
  | none => .error invalidRequirement
  | some (g1, g2) =>
    if g1 == some .ge && g2 == ['0'] then .ok defaultConstraint
    else
      let op := match g1 with | some o => o | none => .eq
      match liftV (Gem.gemVersion g2) with
      | .error e => .error e
      | .ok v => .ok ⟨op, v⟩

/-- `[GemRequirement.parse(r) for r in requirements]`: the first error escapes -/
def parseAll : List (List Char) → Except TErr (List GC)
  | [] => .ok []
  | r :: rest =>
    match parse r with
    | .error e => .error e
    | .ok gc =>
      match parseAll rest with
      | .error e => .error e
      | .ok gcs => .ok (gc :: gcs)

/-- `GemRequirement(*requirements)` for `str` requirements: `self.constraints` -/
def init (requirements : List (List Char)) : Except TErr (List GC) :=
  if requirements.isEmpty then .ok [defaultConstraint] else parseAll requirements

/-- `GemRequirement(*constraints)` for `GemConstraint` arguments (`parse` returns
`GemConstraint(*requirement)`, a copy) -/
def initGC (constraints : List GC) : List GC :=
  if constraints.isEmpty then [defaultConstraint] else constraints

/-- `GemRequirement.create(reqs)` for a list of strings / a single string -/
def create (reqs : List (List Char)) : Except TErr (List GC) := init reqs
def create1 (req : List Char) : Except TErr (List GC) := init [req]

/-- the list `reqs` of `GemRequirement.from_string` -/
def splitRequirements (s : List Char) : List (List Char) :=
  (splitOn ',' (stripSet (fun c => c == '(' || c == ')') (strip s))).map strip

/-- `GemRequirement.from_string(requirements)` -/
def fromString (s : List Char) : Except TErr (List GC) := init (splitRequirements s)

/-! ### `sort_constraints` -/

/-- `GemConstraint.__eq__` (tuple equality): `op == op and version == version`, the latter
is `GemVersion.__eq__` -/
def gcEq (a b : GC) : Bool := a.op == b.op && Gem.valOps.eq a.version b.version

/-- `(a.version, a.op) < (b.version, b.op)`: tuple comparison looks for the first index where
the items are not `==`, then applies `<` there -/
def gcLt (a b : GC) : Bool :=
  if Gem.valOps.eq a.version b.version then a.op.rank < b.op.rank
  else Gem.valOps.lt a.version b.version

/-- the loop `if gc in consts: continue; consts.append(gc)` -/
def dedupLoop : List GC → List GC → List GC
  | _, [] => []
  | seen, gc :: rest =>
    if seen.any (fun c => gcEq c gc) then dedupLoop seen rest
    else gc :: dedupLoop (seen ++ [gc]) rest

/-- `sort_constraints(constraints)`: `sorted` (stable, only `<`) on the key
`(version, op)`, then the first of each group of equal constraints -/
def sortConstraints (cs : List GC) : List GC :=
  dedupLoop [] (cs.mergeSort (fun a b => !gcLt b a))

/-! ### `~>` -/

/-- `get_tilde_constraints(constraint)` for a `GemConstraint` with `op == "~>"`:
the lower bound is the version itself, `upper_bound = version.release().bump()` -/
def tildeOfVersion (v : Gem.Raw) : Except TErr (List GC) :=
  match liftV (Gem.release v) with
  | .error e => .error e
  | .ok rel =>
    match liftV (Gem.bump rel) with
    | .error e => .error e
    | .ok upper => .ok [⟨.ge, v⟩, ⟨.lt, upper⟩]

/-- `get_tilde_constraints(constraint)` -/
def getTildeConstraints (gc : GC) : Except TErr (List GC) :=
  if gc.op != .tilde then .error .ValueError else tildeOfVersion gc.version

/-- the loop of `simplify` -/
def expandTildes : List GC → Except TErr (List GC)
  | [] => .ok []
  | gc :: rest =>
    match (if gc.op == .tilde then getTildeConstraints gc else .ok [gc]) with
    | .error e => .error e
    | .ok here =>
      match expandTildes rest with
      | .error e => .error e
      | .ok more => .ok (here ++ more)

/-- `GemRequirement.simplify()`: the constraints of the new requirement -/
def simplify (cs : List GC) : Except TErr (List GC) :=
  match expandTildes cs with
  | .error e => .error e
  | .ok l => .ok (initGC (sortConstraints l))

/-- `GemRequirement.dedupe()` -/
def dedupe (cs : List GC) : List GC := initGC (sortConstraints cs)

/-- `GemRequirement.tilde_requirements()` -/
def tildeRequirements (cs : List GC) : List GC :=
  (sortConstraints cs).filter (fun gc => gc.op == .tilde)

/-! ### `GemVersionRange.from_native` -/

/-- the loop body: `version_class(str(gc.version))`, the dict lookup, the constraint -/
def conOf (gc : GC) : Except TErr TCon :=
  match liftV (Gem.construct (Gem.str gc.version)) with
  | .error e => .error e
  | .ok v =>
    match gc.op.cmpr? with
    | none => .error .KeyError
    | some c => .ok (.mk c (Gem.str v))

def consOf : List GC → Except TErr (List TCon)
  | [] => .ok []
  | gc :: rest =>
    match conOf gc with
    | .error e => .error e
    | .ok c =>
      match consOf rest with
      | .error e => .error e
      | .ok cs => .ok (c :: cs)

/-- `GemVersionRange.from_native(string)`: the list `constraints` handed to the range
constructor -/
def fromNative (s : List Char) : Except TErr (List TCon) :=
  match fromString s with
  | .error e => .error e
  | .ok gcs =>
    match simplify gcs with
    | .error e => .error e
    | .ok gr => consOf gr

/-! ### `satisfied_by`: the matcher of the library itself -/

/-- `tilde_comparator(version, requirement)`; `and` short-circuits -/
def tildeComparator (version requirement : Gem.Raw) : Except TErr Bool :=
  if !Gem.valOps.ge version requirement then .ok false
  else
    match liftV (Gem.release version) with
    | .error e => .error e
    | .ok rel =>
      match liftV (Gem.bump requirement) with
      | .error e => .error e
      | .ok b => .ok (Gem.valOps.lt rel b)

/-- `comparators_by_op[op](version, constraint.version)` -/
def compareOp (op : Op) (version cv : Gem.Raw) : Except TErr Bool :=
  match op with
  | .eq => .ok (Gem.valOps.eq version cv)
  | .ne => .ok (Gem.valOps.ne version cv)
  | .gt => .ok (Gem.valOps.gt version cv)
  | .lt => .ok (Gem.valOps.lt version cv)
  | .ge => .ok (Gem.valOps.ge version cv)
  | .le => .ok (Gem.valOps.le version cv)
  | .tilde => tildeComparator version cv

/-- the loop of `satisfied_by` -/
def satLoop (version : Gem.Raw) : List GC → Except TErr Bool
  | [] => .ok true
  | gc :: rest =>
    match compareOp gc.op version gc.version with
    | .error e => .error e
    | .ok false => .ok false
    | .ok true => satLoop version rest

/-- `GemRequirement.satisfied_by(version)` for a `GemVersion` argument -/
def satisfiedBy (cs : List GC) (version : Gem.Raw) : Except TErr Bool :=
  if cs.isEmpty then .error invalidRequirement else satLoop version cs

/-- `GemRequirement.from_string(req).satisfied_by(version)` for two strings -/
def satisfiedByStr (req ver : List Char) : Except TErr Bool :=
  match fromString req with
  | .error e => .error e
  | .ok cs =>
    match liftV (Gem.gemVersion ver) with
    | .error e => .error e
    | .ok v => satisfiedBy cs v

/-- `get_tilde_constraints(GemConstraint("~>", GemVersion(ver)))` as text constraints -/
def tildeOfStr (ver : List Char) : Except TErr (List TCon) :=
  match liftV (Gem.gemVersion ver) with
  | .error e => .error e
  | .ok v =>
    match tildeOfVersion v with
    | .error e => .error e
    | .ok l => .ok (l.filterMap (fun gc => gc.op.cmpr?.map (fun c => Con.mk c (Gem.str gc.version))))

end Univers.Text.GemReq
