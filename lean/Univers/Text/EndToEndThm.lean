/-
End to end (C04 ∘ C05 ∘ C11 ∘ C13): for a registered scheme whose version class has lawful
operators, every spelling of a well-formed expression — whitespace anywhere, any letter case of
`vers` and of the scheme, stray bars, `=` written or not, constraints in any order — is parsed,
turned into version objects, sorted and tested for membership of a version text with exactly the
interval-set meaning of the expression.  One theorem from characters to meaning.
-/
import Univers.Text.EndToEnd
import Univers.Text.VersThm
import Univers.Props.C04

namespace Univers.Text.EndToEnd

open Univers Univers.Text Univers.Text.Vers Univers.Text.Str Std

theorem contains_text_eq_denote (T : TextScheme) {cmp : T.R → T.R → Ordering} [TransCmp cmp]
    (hlaw : Lawful T.ops cmp) (mkVer : MkVer) (vc : String) (hmk : mkVer vc = T.mk')
    (e : Expr) (hreg : Registered e.scheme vc) (hne : e.items ≠ []) (hstar : StarAlone e.items)
    (hcanon : ∀ c ∈ e.items, ConOk T.mk' c)
    (vals : List (Con T.R)) (hvals : T.consOf e.items = .ok vals) (hwf : WF cmp vals)
    (t : List Char) (hr : Renders e t) (ha : isAsciiRepr (removeSpaces t) = true)
    (x : List Char) (v : T.R) (hx : T.construct x = .ok v) :
    ∃ s, s.Perm vals ∧ WFSorted cmp s ∧ contains T mkVer t x = .ok (denote cmp s v) := by
  have hok : ∀ c ∈ e.items, ConOk (mkVer vc) c := by rw [hmk]; exact hcanon
  have hfs := fromString_exact mkVer e vc t hreg hne hstar hok hr ha
  obtain ⟨s, hs, hp, hw, hc⟩ := C04.range_contains_eq_denote hlaw vals hwf v
  refine ⟨s, hp, hw, ?_⟩
  simp only [contains, hfs, constraintsOf, hvals, hs, hx, hc]

/-- two spellings of one expression answer every membership question alike -/
theorem contains_text_presentation_independent (T : TextScheme) (mkVer : MkVer) (vc : String)
    (e : Expr) (hreg : Registered e.scheme vc) (hne : e.items ≠ []) (hstar : StarAlone e.items)
    (hok : ∀ c ∈ e.items, ConOk (mkVer vc) c)
    (t t' : List Char) (hr : Renders e t) (hr' : Renders e t')
    (ha : isAsciiRepr (removeSpaces t) = true) (ha' : isAsciiRepr (removeSpaces t') = true)
    (x : List Char) : contains T mkVer t x = contains T mkVer t' x := by
  simp only [contains, fromString_exact mkVer e vc t hreg hne hstar hok hr ha,
    fromString_exact mkVer e vc t' hreg hne hstar hok hr' ha']

end Univers.Text.EndToEnd
