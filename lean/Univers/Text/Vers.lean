/-
Layer C — MODEL of the text part of the `vers` notation:
`VersionRange.from_string`, `VersionRange.__str__`, `VersionRange.to_dict`
(`univers/version_range.py`) and `VersionConstraint.from_string`, `.split`, `.__str__`,
`.to_dict` (`univers/version_constraint.py`), statement by statement.

Tables come from the generated files: `Univers.Gen.registry` (`RANGE_CLASS_BY_SCHEMES`),
`Univers.Gen.rangeClasses` (`range_class.version_class`), `Univers.Gen.comparators`
(`COMPARATORS`, in dict order).

Versions are text: the version class of the scheme is the parameter
`mkVer : (version class name) → text → Except TErr (str(version))`.

`fromStringItems` is the function up to and including the loop over the items; `fromString`
is the same function: the result is a lone star or a list without star (`fromString_starAlone`
in VersThm.lean), so `parsed_constraints.sort()` never compares `None` with a version
(FIXED CODE, fix: a star inside a list is a ValueError).  Sorting itself, `simplify=True` and
`validate=True` are Layer B (`Univers/Vers/Model.lean`: `sortCons`, `simplify`, `validate`) on
the versions of the scheme.

Not modelled: a non-`str` argument (the model is typed), Python's `str.lower` on non-ASCII
letters (the ASCII test has already rejected the text at that point).
-/
import Univers.Text.Err
import Univers.Text.Str
import Univers.Gen.Registry
import Univers.Gen.Comparators

namespace Univers.Text.Vers

open Univers.Text.Str

/-- the version classes: `mkVer className text` is `str(version_class(text))` or the exception
the constructor raises -/
abbrev MkVer := String → List Char → Except TErr (List Char)

/-! ### tables -/

/-- the keys of `COMPARATORS` in dict order -/
def comparatorTexts : List (List Char) := Gen.comparators.map (fun p => p.1.toList)

/-- the operator a `COMPARATORS` entry names: `some none` is the star -/
def cmprOfName : String → Option (Option Cmpr)
  | "ge" => some (some .ge)
  | "le" => some (some .le)
  | "ne" => some (some .ne)
  | "lt" => some (some .lt)
  | "gt" => some (some .gt)
  | "eq" => some (some .eq)
  | "star" => some none
  | _ => none

/-- `comparator in COMPARATORS`, and which one -/
def lookupComparator (k : List Char) : Option (Option Cmpr) :=
  match Gen.comparators.find? (fun p => p.1.toList == k) with
  | some p => cmprOfName p.2
  | none => none

/-- `RANGE_CLASS_BY_SCHEMES` with `List Char` keys -/
def registryL : List (List Char × String) := Gen.registry.map (fun p => (p.1.toList, p.2))

/-- `range_class.version_class.__name__` -/
def versionClassOf (cls : String) : Option String :=
  match Gen.rangeClasses.find? (fun rc => rc.name == cls) with
  | some rc => rc.versionClass
  | none => none

/-! ### `VersionConstraint.split`, `VersionConstraint.from_string` -/

/-- the loop `for comparator in COMPARATORS` of `split` -/
def splitLoop : List (List Char) → List Char → List Char × List Char
  | [], cs => (['='], cs)                       -- default to equality
  | k :: ks, cs =>
      if startsWith cs k then
        let version := lstripSet k cs             -- `lstrip(comparator)`: a character SET
        (k, if k == ['*'] then [] else version)
      else splitLoop ks cs

/-- `VersionConstraint.split(string)` → `(comparator, version)` -/
def split (string : List Char) : List Char × List Char :=
  let cs := removeSpaces string
  if startsWith cs ['*'] then (['*'], [])
  else splitLoop comparatorTexts cs

/-- `VersionConstraint.from_string(string, version_class)`; `mk` is `version_class` -/
def conFromString (mk : List Char → Except TErr (List Char)) (string : List Char) :
    Except TErr TCon :=
  let cs := removeSpaces string
  if !isAsciiRepr cs then .error .ValueError
  else
    let (comparator, version) := split cs
    match lookupComparator comparator with
    | none => .error .ValueError                -- "Unknown comparator"
    | some none => .ok .star                    -- `version = None`
    | some (some c) =>
        if version.isEmpty then .error .ValueError   -- "Empty version"
        else
          match mk version with
          | .error e => .error e
          | .ok v => .ok (.mk c v)

/-! ### `VersionRange.from_string` -/

/-- the loop `for const in constraints.split("|")`.  FIXED CODE: a parsed constraint that
`is_star()` raises ValueError ("contains an invalid '*' constraint") -/
def conLoop (mk : List Char → Except TErr (List Char)) : List (List Char) → Except TErr (List TCon)
  | [] => .ok []
  | p :: ps =>
      match conFromString mk p with
      | .error e => .error e
      | .ok c =>
          if c.isStar then .error .ValueError
          else
            match conLoop mk ps with
            | .error e => .error e
            | .ok cs => .ok (c :: cs)

/-- what the text of the constraints is: the lone star, or the list the loop runs over -/
inductive Body where
  | star
  | texts (ts : List (List Char))

/-- `from_string` from `constraints = remove_spaces(constraints).strip("|")` to the list the
loop runs over.  FIXED CODE: the bars are stripped BEFORE the emptiness test and the star
test. -/
def constraintBody (constraints0 : List Char) : Except TErr Body :=
  let constraints := stripSet ['|'] (removeSpaces constraints0)
  if constraints.isEmpty then .error .ValueError      -- "specifies no version range constraints"
  else if startsWith constraints ['*'] then
    if constraints != ['*'] then .error .ValueError   -- "contains an invalid '*' constraint"
    else .ok .star
  else .ok (.texts (splitChar '|' constraints))

/-- `from_string` from `constraints = remove_spaces(constraints).strip("|")` to the end of the
loop -/
def parseConstraints (mk : List Char → Except TErr (List Char)) (constraints0 : List Char) :
    Except TErr (List TCon) :=
  match constraintBody constraints0 with
  | .error e => .error e
  | .ok .star =>
      -- `[VersionConstraint.from_string(string="*", version_class=version_class)]`
      match conFromString mk ['*'] with
      | .error e => .error e
      | .ok c => .ok [c]
  | .ok (.texts ts) => conLoop mk ts

/-- `from_string` from the ASCII test to `version_class = range_class.version_class`, on the
text without whitespace: the versioning scheme (the registry key), the name of the version
class, the text of the constraints -/
def headerCore (vers : List Char) : Except TErr (List Char × String × List Char) :=
  if !isAsciiRepr vers then .error .ValueError
  else
    let (uriScheme, _, spec) := partitionChar ':' vers
    let uriScheme := lower uriScheme
    if uriScheme != ['v', 'e', 'r', 's'] then .error .ValueError
    else
      let (scheme, _, constraints) := partitionChar '/' spec
      let scheme := lower scheme
      match registryL.lookup scheme with
      | none => .error .ValueError                  -- "unknown versioning scheme"
      | some cls =>
          match versionClassOf cls with
          -- every registered range class has a version class (`registry_versionClass` in
          -- VersThm.lean): this branch is dead with the generated tables
          | none => .error (.other "NoVersionClass")
          | some vc => .ok (scheme, vc, constraints)

/-- `from_string` up to `version_class = range_class.version_class` -/
def header (vers : List Char) : Except TErr (List Char × String × List Char) :=
  -- `not vers or not isinstance(vers, str) or not vers.strip()`
  if vers.isEmpty || (stripWs vers).isEmpty then .error .ValueError
  else headerCore (removeSpaces vers)

/-- `VersionRange.from_string(vers)` up to the end of the loop: the versioning scheme (the
registry key) and the constraints in the order of the text -/
def fromStringItems (mkVer : MkVer) (vers : List Char) : Except TErr (List Char × List TCon) :=
  match header vers with
  | .error e => .error e
  | .ok (scheme, vc, constraints) =>
      match parseConstraints (mkVer vc) constraints with
      | .error e => .error e
      | .ok items => .ok (scheme, items)

/-- `VersionRange.from_string(vers)` with `simplify=False, validate=False`, up to the ORDER of
the result (the items are returned in the order of the text; the range object holds them
sorted with the scheme's order).  Nothing after the loop can raise: the list is a lone star or
has no star. -/
def fromString (mkVer : MkVer) (vers : List Char) : Except TErr (List Char × List TCon) :=
  fromStringItems mkVer vers

/-! ### printing -/

/-- `VersionConstraint.__str__` -/
def conStr : TCon → List Char
  | .star => ['*']
  | .mk .eq v => v
  | .mk c v => c.text.toList ++ v

/-- `VersionConstraint.to_dict()`: `(comparator, str(version))`; `str(None)` for the star -/
def conToDict : TCon → List Char × List Char
  | .star => (['*'], ['N', 'o', 'n', 'e'])
  | .mk c v => (c.text.toList, v)

/-- `VersionRange.__str__` for an already sorted constraint tuple -/
def toString (scheme : List Char) (items : List TCon) : List Char :=
  ['v', 'e', 'r', 's', ':'] ++ scheme ++ ['/'] ++ join ['|'] (items.map conStr)

/-- `VersionRange.to_dict()` -/
def toDict (scheme : List Char) (items : List TCon) : List Char × List (List Char × List Char) :=
  (scheme, items.map conToDict)

end Univers.Text.Vers
