/-
Text layer — MODEL of the Maven / NuGet bracket-range converter:

* `/repo/src/univers/version_range.py`: `MavenVersionRange.from_native`, `from_natives`,
  `NugetVersionRange` (the same code with another version class);
* `/repo/src/univers/maven.py`: `VersionRange.__init__`, `VersionRange.__contains__`,
  `Restriction.__init__`, `Restriction.__contains__`.

Parameters:
* `vcmp : List Char → List Char → Ordering` — the three-way comparison `maven.Version(a).__cmp__
  (maven.Version(b))` on the TEXTS given to `maven.Version(...)` (which strips and lower-cases them
  itself).  `==` is `vcmp = .eq`, `<` is `vcmp = .lt`, `>` (from `functools.total_ordering`:
  `not lt and ne`) is `vcmp = .gt`.  The driver instantiates it with the Layer-A model
  (`Univers.Maven.cmpList ∘ Univers.Maven.parse ∘ strip`).
* `mkVer : List Char → Except TErr (List Char)` — `str(cls.version_class(text))` or the error.

`str(maven.Version)` is the text it was built from (`_unparsed`), `str(None)` is `"None"`.
Exceptions: `RestrictionParseError` and `VersionRangeParseError` (both subclasses of `ValueError`)
are `TErr.other "<ClassName>"` (the harness maps by exact class name); the bare `ValueError` is the
tuple-unpacking error of `lower_bound, upper_bound = _spec.split(",")`.

Not modelled: the interpreter's recursion limit inside `maven.Version` (see Layer A).
-/
import Univers.Text.Err

namespace Univers.Text.MavenRange

open Univers Univers.Text

/-! ### string helpers -/

/-- `str.isspace()` on ASCII: `\t \n \v \f \r`, `\x1c`–`\x1f` and the space -/
def isPySpace (c : Char) : Bool :=
  (9 ≤ c.toNat && c.toNat ≤ 13) || (28 ≤ c.toNat && c.toNat ≤ 32)

/-- `s.strip()` -/
def strip (s : List Char) : List Char :=
  ((s.dropWhile isPySpace).reverse.dropWhile isPySpace).reverse

/-- `s.split(sep)` for a one-character separator: always at least one part -/
def splitOn (sep : Char) : List Char → List (List Char)
  | [] => [[]]
  | c :: cs =>
    if c = sep then [] :: splitOn sep cs
    else match splitOn sep cs with
      | [] => [[c]]
      | p :: ps => (c :: p) :: ps

/-- `s.find(ch)`: `none` is `-1` -/
def find (ch : Char) : List Char → Option Nat
  | [] => none
  | c :: cs => if c = ch then some 0 else (find ch cs).map (· + 1)

/-- `"".join(string.split(" "))` -/
def removeBlanks (s : List Char) : List Char := s.filter (fun c => c != ' ')

/-! ### `maven.Restriction` -/

def errRestriction : TErr := .other "RestrictionParseError"
def errRange : TErr := .other "VersionRangeParseError"

/-- the four fields of a `Restriction`; the bounds are the texts of the `maven.Version`s (`None` =
`none`).  `same` records that `lower_bound` and `upper_bound` are the SAME object (the
single-version form `[a]`): `==` between them then answers `True` through the `self is other`
shortcut of `__cmp__` without comparing. -/
structure Restriction where
  lower : Option (List Char)
  upper : Option (List Char)
  lowerIncl : Bool
  upperIncl : Bool
  same : Bool
  deriving Repr, DecidableEq, Inhabited

/-- `Restriction()`: everything -/
def everything : Restriction := ⟨none, none, false, false, false⟩

/-- the part of `Restriction.__init__` after the two inclusive flags are set; `inner` is
`spec[1:-1].strip()` -/
def restrictionInner (vcmp : List Char → List Char → Ordering) (lowerIncl upperIncl : Bool)
    (inner : List Char) : Except TErr Restriction :=
  if inner.contains ',' then
    match splitOn ',' inner with
    | [lo, hi] =>
      if !lo.isEmpty && lo == hi then .error errRestriction
      else
        let lower := if lo.isEmpty then none else some lo
        let upper := if hi.isEmpty then none else some hi
        match lower, upper with
        | some l, some u =>
          if vcmp u l == .lt then .error errRestriction
          else .ok ⟨lower, upper, lowerIncl, upperIncl, false⟩
        | _, _ => .ok ⟨lower, upper, lowerIncl, upperIncl, false⟩
    | _ => .error .ValueError                              -- too many values to unpack
  else
    if !lowerIncl || !upperIncl then .error errRestriction
    else .ok ⟨some inner, some inner, lowerIncl, upperIncl, true⟩

/-- `Restriction.__init__(spec)` -/
def restriction (vcmp : List Char → List Char → Ordering) (spec : List Char) :
    Except TErr Restriction :=
  if spec.isEmpty then .ok everything                     -- `if not spec: return`
  else
    match strip spec with
    | [] => .error .IndexError                            -- `spec.strip()[0]`
    | c0 :: rest =>
      restrictionInner vcmp (c0 == '[') ((c0 :: rest).getLast? == some ']')
        (strip ((spec.drop 1).dropLast))                  -- `spec[1:-1].strip()`

/-- `Restriction.__contains__(version)`; `x` is the text of the `maven.Version` -/
def Restriction.contains (vcmp : List Char → List Char → Ordering) (r : Restriction)
    (x : List Char) : Bool :=
  let lowOk : Bool :=
    match r.lower with
    | some l =>
      if vcmp l x == .eq && !r.lowerIncl then false
      else if vcmp l x == .gt then false
      else true
    | none => true
  if !lowOk then false
  else
    match r.upper with
    | some u =>
      if vcmp u x == .eq && !r.upperIncl then false
      else if vcmp u x == .lt then false
      else true
    | none => true

/-! ### `maven.VersionRange` -/

/-- the index `close` computed from `_spec.find(")")` and `_spec.find("]")` -/
def closeIdx (s : List Char) : Option Nat :=
  match find ']' s, find ')' s with
  | none, ec => ec                                        -- `inclusive_close < 0`
  | some ic, some ec => if ec < ic then some ec else some ic
  | some ic, none => some ic

/-- `if _spec and _spec.startswith(","): _spec = _spec[1:]` -/
def popComma : List Char → List Char
  | ',' :: rest => rest
  | s => s

def startsOpen : List Char → Bool
  | c :: _ => c == '(' || c == '['
  | [] => false

/-- the test before "Ranges overlap": `upper_bound is not None and (restriction.lower_bound is None
or restriction.lower_bound < upper_bound)` -/
def overlaps (vcmp : List Char → List Char → Ordering) (upper : Option (List Char))
    (r : Restriction) : Bool :=
  match upper with
  | none => false
  | some u =>
    match r.lower with
    | none => true
    | some l => vcmp l u == .lt

/-- the `while` loop of `VersionRange.__init__`: the restrictions appended and the remaining
`_spec`.  `upper` is the variable `upper_bound` (`none` = `None`).  Every iteration removes at
least two characters; the fuel is the length of the text. -/
def rangeLoop (vcmp : List Char → List Char → Ordering) :
    Nat → List Char → Option (List Char) → Except TErr (List Restriction × List Char)
  | 0, spec, _ => .ok ([], spec)
  | fuel + 1, spec, upper =>
    if startsOpen spec then
      match closeIdx spec with
      | none => .error errRange                           -- "Unbounded range"
      | some close =>
        match restriction vcmp (spec.take (close + 1)) with
        | .error e => .error e
        | .ok r =>
          if overlaps vcmp upper r then .error errRange                 -- "Ranges overlap"
          else
            match rangeLoop vcmp fuel (popComma (spec.drop (close + 1))) r.upper with
            | .error e => .error e
            | .ok (rs, tail) => .ok (r :: rs, tail)
    else .ok ([], spec)

/-- `VersionRange(spec).restrictions` -/
def versionRange (vcmp : List Char → List Char → Ordering) (spec : List Char) :
    Except TErr (List Restriction) :=
  match rangeLoop vcmp spec.length spec none with
  | .error e => .error e
  | .ok (rs, rest) =>
    if !rest.isEmpty then
      if !rs.isEmpty then .error errRange                 -- "Only fully-qualified sets allowed"
      else .ok [everything]                               -- `Version(_spec)`; the soft requirement
    else .ok rs

/-- `version in VersionRange(spec)` -/
def rangeContains (vcmp : List Char → List Char → Ordering) (rs : List Restriction)
    (x : List Char) : Bool :=
  rs.any (fun r => r.contains vcmp x)

/-- the line `mavensat`: `maven.Version(x) in maven.VersionRange(spec)` -/
def sat (vcmp : List Char → List Char → Ordering) (spec x : List Char) : Except TErr Bool :=
  match versionRange vcmp spec with
  | .error e => .error e
  | .ok rs => .ok (rangeContains vcmp rs x)

/-! ### `MavenVersionRange.from_native` -/

/-- `str(bound)` -/
def boundStr : Option (List Char) → List Char
  | none => "None".toList
  | some t => t

/-- `lower_bound == upper_bound` -/
def boundsEq (vcmp : List Char → List Char → Ordering) (r : Restriction) : Bool :=
  r.same ||
    match r.lower, r.upper with
    | none, none => true
    | some a, some b => vcmp a b == .eq
    | _, _ => false

/-- `if bound: constraints.append(VersionConstraint(comparator, version_class(str(bound))))` -/
def boundCons (mkVer : List Char → Except TErr (List Char)) (c : Cmpr) :
    Option (List Char) → Except TErr (List TCon)
  | none => .ok []
  | some a =>
    match mkVer a with
    | .error e => .error e
    | .ok v => .ok [.mk c v]

/-- the constraints appended for one restriction (one iteration of the `for`) -/
def restrictionCons (mkVer : List Char → Except TErr (List Char))
    (vcmp : List Char → List Char → Ordering) (r : Restriction) : Except TErr (List TCon) :=
  if boundsEq vcmp r then
    match mkVer (boundStr r.lower) with
    | .error e => .error e
    | .ok v => .ok [.mk .eq v]
  else
    match boundCons mkVer (if r.lowerIncl then .ge else .gt) r.lower with
    | .error e => .error e
    | .ok lo =>
      match boundCons mkVer (if r.upperIncl then .le else .lt) r.upper with
      | .error e => .error e
      | .ok hi => .ok (lo ++ hi)

/-- the `for restriction in restrictions` loop -/
def consOf (mkVer : List Char → Except TErr (List Char))
    (vcmp : List Char → List Char → Ordering) : List Restriction → Except TErr (List TCon)
  | [] => .ok []
  | r :: rs =>
    match restrictionCons mkVer vcmp r with
    | .error e => .error e
    | .ok a =>
      match consOf mkVer vcmp rs with
      | .error e => .error e
      | .ok b => .ok (a ++ b)

/-- `MavenVersionRange.from_native(string)` / `NugetVersionRange.from_native(string)`: the
constraints in the order of the `append`s, before the range constructor sorts them -/
def fromNative (mkVer : List Char → Except TErr (List Char))
    (vcmp : List Char → List Char → Ordering) (s : List Char) : Except TErr (List TCon) :=
  match versionRange vcmp (removeBlanks s) with
  | .error e => .error e
  | .ok rs => consOf mkVer vcmp rs

/-- `from_natives(strings)` for a list of strings: the constraints of every range (each one sorted
by its constructor — irrelevant for the multiset) concatenated -/
def fromNatives (mkVer : List Char → Except TErr (List Char))
    (vcmp : List Char → List Char → Ordering) : List (List Char) → Except TErr (List TCon)
  | [] => .ok []
  | s :: ss =>
    match fromNative mkVer vcmp s with
    | .error e => .error e
    | .ok a =>
      match fromNatives mkVer vcmp ss with
      | .error e => .error e
      | .ok b => .ok (a ++ b)

end Univers.Text.MavenRange
