/-
Agreement theorems for `split_req` and `split_req_bracket_notation` as translated from `univers/version_range.py`
on every run (`Univers/Gen/PyTextSplitReq.lean`, `PyTextSplitReqBracket.lean`): they are the model's `splitReq` and
`splitReqBracket` of `Univers/Text/Advisory.lean` that the theorems of C15 (and the deb / rpm part of C06) are about.
-/
import Univers.Gen.PyTextSplitReq
import Univers.Gen.PyTextSplitReqBracket
import Univers.Text.Advisory
import Univers.Text.GenTextThm

namespace Univers.Gen.Text
open Univers Univers.PyRt Univers.Text Univers.Text.Vers Univers.Text.PyText

variable (mk : List Char → Except TErr (List Char))

/-! The advisory model reads ASCII text (its `isPySpace` is the ASCII part of `str.isspace`); the string run-time of the
translated code (`Text/Str.lean`) knows the Unicode blanks too.  On ASCII text the two agree. -/

def Ascii (s : List Char) : Prop := ∀ c ∈ s, c.toNat < 128

theorem char_eq_space_iff (c : Char) : c = ' ' ↔ c.toNat = 32 := by
  constructor
  · intro h; subst h; rfl
  · intro h
    have : c = Char.ofNat c.toNat := (Char.ofNat_toNat c).symm
    rw [this, h]

theorem isSpace_ascii {c : Char} (h : c.toNat < 128) : Str.isSpace c = Advisory.isPySpace c := by
  unfold Str.isSpace Advisory.isPySpace
  rw [Bool.eq_iff_iff]
  simp only [Bool.or_eq_true, Bool.and_eq_true, decide_eq_true_eq, beq_iff_eq, char_eq_space_iff]
  generalize c.toNat = n at *
  omega

theorem removeSpaces_ascii {s : List Char} (h : Ascii s) : Str.removeSpaces s = Advisory.removeSpaces s := by
  rw [Str.removeSpaces_eq_filter]
  unfold Advisory.removeSpaces
  apply List.filter_congr
  intro c hc
  rw [isSpace_ascii (h c hc)]

theorem split_req_for_eq (string : List Char) (cmps0 : List (List Char × Option (List Char))) (dflt : Option (List Char))
    (strip cs : List Char) (cmps : List (List Char × Option (List Char))) :
    pyFor cmps () (py_split_req_for1_body mk string cmps0 dflt strip cs) (py_split_req_for1_after mk string cmps0 dflt strip cs)
      = (match cmps.find? (fun kv => kv.1.isPrefixOf cs) with
         | some kv => .ok (kv.2, Advisory.lstripSet kv.1 cs)
         | none =>
           match dflt with
           | some d => if d.isEmpty then .error .ValueError else .ok (some d, cs)
           | none => .error .ValueError) := by
  induction cmps with
  | nil =>
    simp only [pyFor_nil, py_split_req_for1_after, List.find?_nil]
    cases dflt with
    | none => rfl
    | some d => by_cases h : d.isEmpty = true <;> simp [truthyOpt, h]
  | cons kv cmps ih =>
    simp only [pyFor_cons, py_split_req_for1_body, Str.startsWith, List.find?_cons, Str.lstripSet, Advisory.lstripSet]
    by_cases h : kv.1.isPrefixOf cs = true
    · simp [h]
    · simp only [h, Bool.false_eq_true, ↓reduceIte, Step.cont_next]
      exact ih

/-- **`split_req` as translated is the model's `splitReq`.** -/
theorem py_split_req_eq (string : List Char) (hs : Ascii string) (comparators : List (List Char × Option (List Char)))
    (dflt : Option (List Char)) (strip : List Char) :
    py_split_req mk string comparators dflt strip = Advisory.splitReq string comparators dflt strip := by
  unfold py_split_req Advisory.splitReq
  simp only [py_remove_spaces_eq, bind, Except.bind, removeSpaces_ascii hs]
  have : Str.stripSet strip (Advisory.removeSpaces string) = Advisory.stripSet strip (Advisory.removeSpaces string) := rfl
  rw [this]
  exact split_req_for_eq mk string comparators dflt strip _ comparators

theorem stripWs_ascii {s : List Char} (h : Ascii s) : Str.stripWs s = Advisory.stripWs s := by
  unfold Str.stripWs Str.rstripWs Str.lstripWs Advisory.stripWs
  have h1 : s.dropWhile Str.isSpace = s.dropWhile Advisory.isPySpace := by
    induction s with
    | nil => rfl
    | cons c cs ih =>
      have hc := isSpace_ascii (h c (List.mem_cons_self ..))
      simp only [List.dropWhile_cons, hc]
      split
      · exact ih (fun d hd => h d (List.mem_cons_of_mem _ hd))
      · rfl
  rw [h1]
  have h2 : ∀ t : List Char, Ascii t → t.dropWhile Str.isSpace = t.dropWhile Advisory.isPySpace := by
    intro t ht
    induction t with
    | nil => rfl
    | cons c cs ih =>
      have hc := isSpace_ascii (ht c (List.mem_cons_self ..))
      simp only [List.dropWhile_cons, hc]
      split
      · exact ih (fun d hd => ht d (List.mem_cons_of_mem _ hd))
      · rfl
  rw [h2]
  intro c hc
  exact h c ((List.dropWhile_sublist _).subset (List.mem_reverse.mp hc))

theorem ascii_removeSpaces {s : List Char} (h : Ascii s) : Ascii (Advisory.removeSpaces s) := by
  intro c hc
  exact h c (List.mem_filter.mp hc).1

/-- **`split_req_bracket_notation` as translated is the model's `splitReqBracket`** (on ASCII text). -/
theorem py_split_req_bracket_eq (string : List Char) (hs : Ascii string) :
    py_split_req_bracket mk string = Advisory.splitReqBracket string := by
  unfold py_split_req_bracket Advisory.splitReqBracket
  simp only [py_remove_spaces_eq, bind, Except.bind, pyFor_cons, pyFor_nil, py_split_req_bracket_for1_body,
    py_split_req_bracket_for1_after, py_split_req_bracket_for2_body, py_split_req_bracket_for2_after, Str.startsWith,
    Str.endsWith, removeSpaces_ascii hs, stripWs_ascii (ascii_removeSpaces hs)]
  generalize Advisory.stripWs (Advisory.removeSpaces string) = cs
  by_cases h1 : ['('].isPrefixOf cs = true
  · simp [h1, Str.lstripSet, Advisory.lstripSet]
  · by_cases h2 : ['['].isPrefixOf cs = true
    · simp [h1, h2, Str.lstripSet, Advisory.lstripSet]
    · by_cases h3 : [')'].isSuffixOf cs = true
      · simp [h1, h2, h3, Str.rstripSet, Advisory.rstripSet]
      · by_cases h4 : [']'].isSuffixOf cs = true <;> simp [h1, h2, h3, h4, Str.rstripSet, Advisory.rstripSet]

end Univers.Gen.Text
