/-
Layer C model of the PyPI native range converter `PypiVersionRange.from_native`
(`/repo/src/univers/version_range.py`) and of the part of `packaging.specifiers` (26.3) it
runs through: `SpecifierSet.__init__` (comma split, strip, empty items dropped; the specifiers
are kept in a TUPLE in input order, duplicates included), `Specifier.__init__` (the regex
`Specifier._regex` with `fullmatch`, then operator / version by `startswith` and slicing),
`Specifier.operator`, `Specifier.version`, `SpecifierSet.__iter__`.

The regex is modelled as a regular expression value `RE` with a derivative matcher: `fullmatch`
of a backtracking engine without back-references or look-around is language membership.

Version construction (`PypiVersion(text)`, then `str`) is the parameter `mkVer`.
-/
import Univers.Text.GemReq

namespace Univers.Text.PypiNative

open Univers Univers.Text Univers.Text.GP

/-! ### regular expressions by derivatives -/

inductive RE where
  | empty                       -- matches nothing
  | eps                         -- matches ""
  | ch (p : Char → Bool)        -- one character in a class
  | seq (a b : RE)
  | alt (a b : RE)
  | star (a : RE)

namespace RE

def nullable : RE → Bool
  | empty => false
  | eps => true
  | ch _ => false
  | seq a b => a.nullable && b.nullable
  | alt a b => a.nullable || b.nullable
  | star _ => true

def isEmpty : RE → Bool
  | empty => true
  | _ => false

def isEps : RE → Bool
  | eps => true
  | _ => false

/-- `seq` that simplifies `∅·b = a·∅ = ∅`, `ε·b = b` (same language) -/
def mkSeq (a b : RE) : RE :=
  if a.isEmpty || b.isEmpty then empty else if a.isEps then b else seq a b

/-- `alt` that simplifies `∅|b = b`, `a|∅ = a` (same language) -/
def mkAlt (a b : RE) : RE :=
  if a.isEmpty then b else if b.isEmpty then a else alt a b

/-- Brzozowski derivative with respect to `c` -/
def deriv (c : Char) : RE → RE
  | empty => empty
  | eps => empty
  | ch p => if p c then eps else empty
  | seq a b =>
    if a.nullable then mkAlt (mkSeq (a.deriv c) b) (b.deriv c) else mkSeq (a.deriv c) b
  | alt a b => mkAlt (a.deriv c) (b.deriv c)
  | star a => mkSeq (a.deriv c) (star a)

/-- `re.fullmatch` -/
def fullmatch (r : RE) : List Char → Bool
  | [] => r.nullable
  | c :: cs => if r.isEmpty then false else (r.deriv c).fullmatch cs

def opt (a : RE) : RE := alt a eps
def plus (a : RE) : RE := seq a (star a)

/-- a literal under `re.IGNORECASE` (ASCII); `s` is given in lower case -/
def lit (s : String) : RE :=
  s.toList.foldr (fun c r => seq (ch (fun x => x.toLower == c)) r) eps

def alts : List RE → RE
  | [] => empty
  | [a] => a
  | a :: rest => alt a (alts rest)

def seqs : List RE → RE
  | [] => eps
  | [a] => a
  | a :: rest => seq a (seqs rest)

end RE

open RE

/-! ### `Specifier._regex` -/

def digit : RE := ch Char.isDigit
/-- `\s*` -/
def ws : RE := star (ch isSp)
/-- `[-_\.]?` -/
def sepOpt : RE := opt (ch (fun c => c == '-' || c == '_' || c == '.'))
/-- `v?` (IGNORECASE) -/
def vOpt : RE := opt (lit "v")
/-- `(?:[0-9]+!)?` -/
def epochOpt : RE := opt (seq (plus digit) (lit "!"))
/-- `[0-9]+(?:\.[0-9]+)*` -/
def release : RE := seq (plus digit) (star (seq (lit ".") (plus digit)))
/-- `[0-9]+(?:\.[0-9]+)+` -/
def release2 : RE := seq (plus digit) (plus (seq (lit ".") (plus digit)))
/-- `[-_\.]?(alpha|beta|preview|pre|a|b|c|rc)[-_\.]?[0-9]*` -/
def preRel : RE :=
  seqs [sepOpt, alts [lit "alpha", lit "beta", lit "preview", lit "pre", lit "a", lit "b", lit "c", lit "rc"],
        sepOpt, star digit]
/-- `(?:-[0-9]+)|(?:[-_\.]?(post|rev|r)[-_\.]?[0-9]*)` -/
def postRel : RE :=
  alt (seq (lit "-") (plus digit))
      (seqs [sepOpt, alts [lit "post", lit "rev", lit "r"], sepOpt, star digit])
/-- `[-_\.]?dev[-_\.]?[0-9]*` -/
def devRel : RE := seqs [sepOpt, lit "dev", sepOpt, star digit]
/-- `[a-z0-9]` (IGNORECASE) -/
def localCh : RE := ch (fun c => c.isDigit || ('a' ≤ c.toLower && c.toLower ≤ 'z'))
/-- `\+[a-z0-9]+(?:[-_\.][a-z0-9]+)*` -/
def localRel : RE :=
  seqs [lit "+", plus localCh, star (seq (ch (fun c => c == '-' || c == '_' || c == '.')) (plus localCh))]

/-- first alternative: `===\s*[^\s;)]*` -/
def altArbitrary : RE :=
  seqs [lit "===", ws, star (ch (fun c => !(isSp c) && c != ';' && c != ')'))]

/-- second alternative: `(?:==|!=)\s*v?epoch?release(?:\.\*|pre?post?dev?local?)?` -/
def altEquality : RE :=
  seqs [alt (lit "==") (lit "!="), ws, vOpt, epochOpt, release,
        opt (alt (lit ".*") (seqs [opt preRel, opt postRel, opt devRel, opt localRel]))]

/-- third alternative: `~=\s*v?epoch?release2 pre? post? dev?` -/
def altCompatible : RE :=
  seqs [lit "~=", ws, vOpt, epochOpt, release2, opt preRel, opt postRel, opt devRel]

/-- fourth alternative: `(?:<=|>=|<|>)\s*v?epoch?release pre? post? dev?` -/
def altOrdered : RE :=
  seqs [alts [lit "<=", lit ">=", lit "<", lit ">"], ws, vOpt, epochOpt, release,
        opt preRel, opt postRel, opt devRel]

/-- `Specifier._regex` = `\s*(?:…|…|…|…)\s*` with `re.VERBOSE | re.IGNORECASE` -/
def specifierRegex : RE :=
  seqs [ws, alts [altArbitrary, altEquality, altCompatible, altOrdered], ws]

/-! ### `Specifier.__init__` -/

/-- the keys of `Specifier._operators` -/
inductive SOp where
  | compatible | eq | ne | le | ge | lt | gt | arbitrary
  deriving DecidableEq, Repr, Inhabited

def SOp.text : SOp → List Char
  | .compatible => "~=".toList | .eq => "==".toList | .ne => "!=".toList | .le => "<=".toList
  | .ge => ">=".toList | .lt => "<".toList | .gt => ">".toList | .arbitrary => "===".toList

/-- `PypiVersionRange.vers_by_native_comparators[operator]`; `None` for `~=` and `===` -/
def SOp.cmpr? : SOp → Option Cmpr
  | .eq => some .eq | .ne => some .ne | .le => some .le | .ge => some .ge
  | .lt => some .lt | .gt => some .gt | .compatible => none | .arbitrary => none

/-- the three-way `startswith` test of `Specifier.__init__` on the stripped text.
On a text accepted by the regex the one-character case is `<` or `>`. -/
def splitSpec (spec : List Char) : Option (SOp × List Char) :=
  if startsWith "===".toList spec then some (.arbitrary, strip (spec.drop 3))
  else if startsWith "~=".toList spec then some (.compatible, strip (spec.drop 2))
  else if startsWith "==".toList spec then some (.eq, strip (spec.drop 2))
  else if startsWith "!=".toList spec then some (.ne, strip (spec.drop 2))
  else if startsWith "<=".toList spec then some (.le, strip (spec.drop 2))
  else if startsWith ">=".toList spec then some (.ge, strip (spec.drop 2))
  else if startsWith "<".toList spec then some (.lt, strip (spec.drop 1))
  else if startsWith ">".toList spec then some (.gt, strip (spec.drop 1))
  else none

/-- `Specifier(spec)`: `none` = `InvalidSpecifier`; else `(operator, version)` -/
def specifier (spec : List Char) : Option (SOp × List Char) :=
  if !specifierRegex.fullmatch spec then none else splitSpec (strip spec)

/-- `tuple(map(Specifier, split_specifiers))`: the first failure escapes -/
def specifiers : List (List Char) → Option (List (SOp × List Char))
  | [] => some []
  | s :: rest =>
    match specifier s with
    | none => none
    | some sp =>
      match specifiers rest with
      | none => none
      | some sps => some (sp :: sps)

/-- `[s.strip() for s in specifiers.split(",") if s.strip()]` -/
def splitSpecifiers (s : List Char) : List (List Char) :=
  ((splitOn ',' s).map strip).filter (fun x => !x.isEmpty)

/-- `SpecifierSet(string)` then iteration: the `(operator, version)` pairs in input order -/
def specifierSet (s : List Char) : Option (List (SOp × List Char)) :=
  specifiers (splitSpecifiers s)

/-! ### `PypiVersionRange.from_native` -/

/-- `";\\/|{}()`?'\"\t\n "` -/
def unsupportedChars : List Char :=
  [';', '\\', '/', '|', '{', '}', '(', ')', '`', '?', '\'', '"', '\t', '\n', ' ']

/-- one turn of the loop: `none` when a message is appended to `unsupported_messages`
(operator `~=`/`===`, version ending in `.*`, or ANY exception in the `try` block — the
`except:` is bare), else the constraint appended -/
def loopBody (mkVer : List Char → Except TErr (List Char)) (sp : SOp × List Char) : Option TCon :=
  if sp.1 == .compatible || sp.1 == .arbitrary then none
  else if endsWith ".*".toList sp.2 then none
  else
    match mkVer sp.2 with
    | .error _ => none
    | .ok v =>
      match sp.1.cmpr? with
      | none => none
      | some c => some (.mk c v)

/-- `PypiVersionRange.from_native(string)`: the list `constraints` handed to the range
constructor -/
def fromNative (mkVer : List Char → Except TErr (List Char)) (string : List Char) :
    Except TErr (List TCon) :=
  if string.contains ';' then .error .InvalidVersionRange
  else
    -- `"".join(string.split(" "))`
    let string := string.filter (fun c => c != ' ')
    if unsupportedChars.any (fun c => string.contains c) then .error .InvalidVersionRange
    else
      match specifierSet string with
      | none => .error .InvalidVersionRange
      | some specs =>
        let results := specs.map (loopBody mkVer)
        if results.any Option.isNone then .error .InvalidVersionRange
        else .ok (results.filterMap id)

end Univers.Text.PypiNative
