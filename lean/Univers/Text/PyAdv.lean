/-
Run-time support for the advisory / native functions that `harness/translate_text.py` GENERATES from the Python source
and that read the tables of `Text/Advisory.lean`.
-/
import Univers.Text.PyText
import Univers.Text.Advisory

namespace Univers.Text.PyText
open Univers Univers.Text

/-- `cls.vers_by_native_comparators` of the range class `cls` (the table regenerated from /repo); a class without the
attribute: `AttributeError` -/
def nativeDictE (cls : String) : Except TErr (List (List Char × Option (List Char))) :=
  match Advisory.nativeDict cls with
  | some d => .ok d
  | none => .error .AttributeError

end Univers.Text.PyText
