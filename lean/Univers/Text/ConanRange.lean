/-
Text layer — MODEL of the Conan range converter:

* `/repo/src/univers/version_range.py`: `ConanVersionRange.from_native`;
* `/repo/src/univers/conan/version_range.py`: `VersionRange.__init__`, `_ConditionSet.__init__`,
  `_ConditionSet._parse_expression`, `_ConditionSet.valid`, `VersionRange.__contains__`.

The version objects are `univers.versions.ConanVersion` (that module imports the wrapper class, not
`conan.version.Version`); what the converter needs of them is the record `ConanOps`:
construction, `str`, `len(v.main)`, `first_non_zero(v.main)` and `str(v.upper_bound(index))`.
The driver instantiates it with the Layer-A model `Univers.Conan`; `ConanRangeSpec.lean` has a
local instance on plain dotted numeric versions.

Exceptions: `ConanException` derives from `Exception` (NOT from `ValueError`): it is
`TErr.other "ConanException"`; it is the error this converter raises for a text it cannot read.
-/
import Univers.Text.Err

namespace Univers.Text.ConanRange

open Univers Univers.Text

/-! ### string helpers -/

/-- `str.isspace()` on ASCII -/
def isPySpace (c : Char) : Bool :=
  (9 ≤ c.toNat && c.toNat ≤ 13) || (28 ≤ c.toNat && c.toNat ≤ 32)

/-- `s.split(sep)` for a one-character separator -/
def splitOn (sep : Char) : List Char → List (List Char)
  | [] => [[]]
  | c :: cs =>
    if c = sep then [] :: splitOn sep cs
    else match splitOn sep cs with
      | [] => [[c]]
      | p :: ps => (c :: p) :: ps

/-- `s.split("||")`: leftmost non-overlapping occurrences -/
def splitBars : List Char → List (List Char)
  | [] => [[]]
  | '|' :: '|' :: rest => [] :: splitBars rest
  | c :: rest =>
    match splitBars rest with
    | [] => [[c]]
    | p :: ps => (c :: p) :: ps

/-- `s.split()`: `cur` is the field being read -/
def splitWsAux : List Char → List Char → List (List Char)
  | [], cur => if cur.isEmpty then [] else [cur]
  | c :: cs, cur =>
    if isPySpace c then
      if cur.isEmpty then splitWsAux cs [] else cur :: splitWsAux cs []
    else splitWsAux cs (cur ++ [c])

/-- `s.split()`: fields between runs of whitespace, no empty field -/
def splitWs (s : List Char) : List (List Char) := splitWsAux s []

/-- `pat in s` -/
def hasInfix (pat : List Char) : List Char → Bool
  | [] => pat.isEmpty
  | c :: cs => pat.isPrefixOf (c :: cs) || hasInfix pat cs

/-! ### the version interface -/

def errConan : TErr := .other "ConanException"

/-- what the converter uses of `ConanVersion` -/
structure ConanOps (V : Type) where
  /-- `ConanVersion(text)` -/
  make : List Char → Except TErr V
  /-- `str(v)` -/
  str : V → List Char
  /-- `len(v.main)` -/
  mainLen : V → Nat
  /-- `first_non_zero(v.main)`: index of the first item `!= 0`, else `len(main) - 1` -/
  firstNonZero : V → Nat
  /-- `str(v.upper_bound(index))`; errors `IndexError`, `ConanException` -/
  upperBound : V → Nat → Except TErr (List Char)

/-- `_Condition(operator, version)`; the version as `str(version)` -/
abbrev Cond := Cmpr × List Char

/-- the operator variable of `_parse_expression` -/
inductive Op where
  | gt | lt | ge | le | eq | tilde | caret
  deriving DecidableEq, Repr

/-- the `operator` / `index` computation of `_parse_expression` on a non-empty expression:
the operator and `expression[index:]` -/
def splitOperator (e : List Char) : Except TErr (Op × List Char) :=
  match e with
  | [] => .error .IndexError                              -- `expression[0]`
  | c :: rest =>
    if c = '>' ∨ c = '<' then
      match rest with                                     -- `expression[1:2] == "="`
      | '=' :: rest' => .ok (if c = '>' then .ge else .le, rest')
      | _ => .ok (if c = '>' then .gt else .lt, rest)
    else if c = '^' then .ok (.caret, rest)
    else if c = '~' then .ok (.tilde, rest)
    else if c = '=' then .ok (.eq, rest)
    else .ok (.eq, e)

/-- `index = 1 if len(v.main) > 1 else 0` of the tilde branch -/
def tildeIndex {V : Type} (o : ConanOps V) (v : V) : Nat := if o.mainLen v > 1 then 1 else 0

/-- `_ConditionSet._parse_expression(expression)` -/
def parseExpression {V : Type} (o : ConanOps V) (e : List Char) : Except TErr (List Cond) :=
  if e = [] ∨ e = ['*'] then
    match o.make "0.0.0".toList with
    | .error err => .error err
    | .ok v => .ok [(.ge, o.str v)]
  else
    match splitOperator e with
    | .error err => .error err
    | .ok (op, version) =>
      if version = [] then .error errConan               -- "Error parsing version range"
      else
        match o.make version with
        | .error err => .error err
        | .ok v =>
          match op with
          | .tilde =>
            (match o.upperBound v (tildeIndex o v) with
             | .error err => .error err
             | .ok u => .ok [(.ge, o.str v), (.lt, u)])
          | .caret =>
            (match o.upperBound v (o.firstNonZero v) with
             | .error err => .error err
             | .ok u => .ok [(.ge, o.str v), (.lt, u)])
          | .gt => .ok [(.gt, o.str v)]
          | .lt => .ok [(.lt, o.str v)]
          | .ge => .ok [(.ge, o.str v)]
          | .le => .ok [(.le, o.str v)]
          | .eq => .ok [(.eq, o.str v)]

/-- a `_ConditionSet`: the truthiness of `self.prerelease` and the conditions -/
structure CondSet where
  prerelease : Bool
  conds : List Cond
  deriving Repr

/-- the `for e in expressions` loop of `_ConditionSet.__init__` (`e.strip()` is the identity on a
field of `split()`, and a field is never empty, so `e[-1]` exists) -/
def condLoop {V : Type} (o : ConanOps V) : List (List Char) → Bool → Except TErr CondSet
  | [], pre => .ok ⟨pre, []⟩
  | e :: es, pre =>
    let marked := e.getLast? == some '-'
    let e' := if marked then e.dropLast else e
    let pre' := marked || pre
    match parseExpression o e' with
    | .error err => .error err
    | .ok cs =>
      match condLoop o es pre' with
      | .error err => .error err
      | .ok s => .ok ⟨s.prerelease, cs ++ s.conds⟩

/-- `_ConditionSet(expression, prerelease)` -/
def conditionSet {V : Type} (o : ConanOps V) (expression : List Char) (pre : Bool) :
    Except TErr CondSet :=
  condLoop o (splitWs expression) pre

def condSets {V : Type} (o : ConanOps V) (pre : Bool) : List (List Char) → Except TErr (List CondSet)
  | [] => .ok []
  | a :: as =>
    match conditionSet o a pre with
    | .error err => .error err
    | .ok s =>
      match condSets o pre as with
      | .error err => .error err
      | .ok ss => .ok (s :: ss)

/-- `VersionRange(expression).condition_sets` -/
def versionRange {V : Type} (o : ConanOps V) (expression : List Char) : Except TErr (List CondSet) :=
  match splitOn ',' expression with
  | [] => .error .IndexError                              -- unreachable: `split` is never empty
  | versionExpr :: options =>
    let pre := options.any (hasInfix "include_prerelease".toList)
    condSets o pre (splitBars versionExpr)

/-- `cls.version_class(str(version))` for every condition, in order -/
def toCons {V : Type} (o : ConanOps V) : List Cond → Except TErr (List TCon)
  | [] => .ok []
  | (c, t) :: rest =>
    match o.make t with
    | .error err => .error err
    | .ok v =>
      match toCons o rest with
      | .error err => .error err
      | .ok cs => .ok (.mk c (o.str v) :: cs)

/-- `ConanVersionRange.from_native(string)`: the constraints in the order of the `append`s -/
def fromNative {V : Type} (o : ConanOps V) (s : List Char) : Except TErr (List TCon) :=
  match versionRange o s with
  | .error err => .error err
  | .ok sets => toCons o (sets.flatMap (·.conds))

/-! ### the in-repo matcher `VersionRange.__contains__`

`version` is a `ConanVersion`; the version of a condition is a `ConanVersion` or (the upper bound of
`~` and `^`) a bare `conan.version.Version`.  Either way the comparison ends in the comparison of the
conan `Version` values (attrs compares `(value,)` tuples for two `ConanVersion`s; for a bare
`Version` the attrs method answers `NotImplemented` and the reflected `Version` method re-parses
`str(version)`), so the matcher is a function of the six operators on the TEXTS. -/

/-- the matcher's view of the versions: whether `version.pre` is truthy, and the six operators
`version <op> condition.version` on the texts -/
structure MatchOps where
  hasPre : List Char → Bool
  op : Cmpr → List Char → List Char → Bool

/-- `_ConditionSet.valid(version)` -/
def CondSet.valid (m : MatchOps) (s : CondSet) (x : List Char) : Bool :=
  if m.hasPre x && !s.prerelease then false
  else s.conds.all (fun (c, t) => m.op c x t)

/-- `version in VersionRange(expression)` -/
def contains (m : MatchOps) (sets : List CondSet) (x : List Char) : Bool :=
  sets.any (fun s => s.valid m x)

end Univers.Text.ConanRange
