/-
From the Python source to the specification for the vers parser: `VersionRange.from_string` as TRANSLATED on every run
(`Univers/Gen/PyTextRangeFromString.lean`), with both flags off and a sort that leaves the list alone, applied to ANY
rendering of an expression (any case of `vers:` and of the scheme, blanks anywhere, stray bars, `=` explicit or not),
returns the registered class of the scheme with exactly the constraints the expression states — the agreement theorem
(`vr_from_string_eq`, `fromStringFull_plain`) followed by the model's exactness theorem (`fromString_exact`): the parsing
half of C05 and the presentation independence of C13.
-/
import Univers.Text.GenRangeTextThm
import Univers.Text.VersThm

namespace Univers.Gen.Text
open Univers Univers.PyRt Univers.Text Univers.Text.Str Univers.Text.Vers Univers.Text.PyText

variable (mkVer : MkVer) (simpT : List TCon → Except TErr (List TCon)) (valT : List TCon → Except TErr Bool)

/-- **The vers parser, source to specification.** -/
theorem py_from_string_exact (e : Expr) (vc : String) (t : List Char)
    (hreg : Registered e.scheme vc) (hne : e.items ≠ []) (hstar : StarAlone e.items)
    (hok : ∀ c ∈ e.items, ConOk (mkVer vc) c) (hr : Renders e t)
    (ha : isAsciiRepr (removeSpaces t) = true) :
    ∃ cls, registryL.lookup e.scheme = some cls ∧
      vr_from_string mkVer (fun x => .ok x) simpT valT t false false = .ok (cls, constraintsOf e) := by
  obtain ⟨cls, hcls, _⟩ := hreg
  refine ⟨cls, hcls, ?_⟩
  rw [vr_from_string_eq, fromStringFull_plain, fromString_exact mkVer e vc t ⟨cls, hcls, ‹_›⟩ hne hstar hok hr ha]
  simp only [hcls]

/-- two renderings of one expression parse, through the translated code, to the same range -/
theorem py_from_string_presentation_independent (e : Expr) (vc : String) (t t' : List Char)
    (hreg : Registered e.scheme vc) (hne : e.items ≠ []) (hstar : StarAlone e.items)
    (hok : ∀ c ∈ e.items, ConOk (mkVer vc) c) (hr : Renders e t) (hr' : Renders e t')
    (ha : isAsciiRepr (removeSpaces t) = true) (ha' : isAsciiRepr (removeSpaces t') = true) :
    vr_from_string mkVer (fun x => .ok x) simpT valT t false false
      = vr_from_string mkVer (fun x => .ok x) simpT valT t' false false := by
  obtain ⟨cls, _, h1⟩ := py_from_string_exact mkVer simpT valT e vc t hreg hne hstar hok hr ha
  obtain ⟨cls', _, h2⟩ := py_from_string_exact mkVer simpT valT e vc t' hreg hne hstar hok hr' ha'
  have : cls = cls' := by simp_all
  rw [h1, h2, this]

end Univers.Gen.Text
