/-
Layer C — MODEL of the advisory notations and of the simple relation converters of
`univers/version_range.py`:

* `split_req`, `split_req_bracket_notation`;
* `build_constraint_from_github_advisory_string`, `build_range_from_github_advisory_constraint`;
* `build_range_from_snyk_advisory_string`;
* `from_gitlab_native` (the generic token loop; conan / maven / nuget delegate to `from_native`,
  which is the parameter `nativeOf`);
* `DebianVersionRange.split / build_constraint_from_string / from_native / from_natives`;
* `RpmVersionRange.build_constraint_from_string / from_native / from_natives`;
* `OpensslVersionRange.from_native`, `NginxVersionRange.from_native`.

Everything mirrors the Python statement by statement, defects included.  Text is `List Char`
(ASCII).  The result of a converter is the list of constraints in the order the code appends
them, BEFORE the range constructor sorts it.  The comparator dictionaries and the scheme
registries are the tables regenerated from /repo (`Univers.Gen.*`), in dict order.

Version construction is a parameter: `mkVerOf : String → Str → Except TErr Str`, keyed by the NAME
of the version class of the range class (`vrc.version_class`), returns `str(version)` or the
error raised.  `NginxVersionRange.from_native` needs `is_stable` and `next_minor` as well: the
parameter is a record `NginxOps`; `nginxSemver` instantiates it with the Layer-A semver model.
No Mathlib.
-/
import Univers.Text.Err
import Univers.Gen.Registry
import Univers.Gen.Comparators
import Univers.Scheme.Semver

namespace Univers.Text.Advisory

open Univers Univers.Text

abbrev Str := List Char

/-! ### Python string primitives on ASCII text -/

/-- `str.isspace()` on ASCII: TAB LF VT FF CR, FS GS RS US, SPACE -/
def isPySpace (c : Char) : Bool :=
  c == ' ' || (9 ≤ c.toNat && c.toNat ≤ 13) || (28 ≤ c.toNat && c.toNat ≤ 31)

/-- `univers.utils.remove_spaces`: `"".join(string.split())` -/
def removeSpaces (s : Str) : Str := s.filter (fun c => !isPySpace c)

/-- `s.lstrip(chars)`: strips a character SET -/
def lstripSet (set : Str) (s : Str) : Str := s.dropWhile (fun c => set.contains c)

/-- `s.rstrip(chars)` -/
def rstripSet (set : Str) (s : Str) : Str := (s.reverse.dropWhile (fun c => set.contains c)).reverse

/-- `s.strip(chars)` (with `chars = ""` nothing is stripped) -/
def stripSet (set : Str) (s : Str) : Str := rstripSet set (lstripSet set s)

/-- `s.strip()` -/
def stripWs (s : Str) : Str := (((s.dropWhile isPySpace).reverse).dropWhile isPySpace).reverse

/-- `s.split(sep)` with a one-character separator: keeps empty fields, never returns `[]` -/
def splitOn (sep : Char) : Str → List Str
  | [] => [[]]
  | c :: cs =>
    if c == sep then [] :: splitOn sep cs
    else match splitOn sep cs with
      | [] => [[c]]
      | h :: t => (c :: h) :: t

/-- `s.split("||")`: left to right, non overlapping -/
def splitPipes : Str → List Str
  | [] => [[]]
  | '|' :: '|' :: rest => [] :: splitPipes rest
  | c :: rest =>
    match splitPipes rest with
    | [] => [[c]]
    | h :: t => (c :: h) :: t

/-- `s.lower()` on ASCII -/
def lower (s : Str) : Str :=
  s.map (fun c => if 'A' ≤ c ∧ c ≤ 'Z' then Char.ofNat (c.toNat + 32) else c)

/-- `s.partition(sep)`: `(before, after)` of the FIRST occurrence; `(s, "")` when absent -/
def partition (sep : Char) : Str → Str × Str
  | [] => ([], [])
  | c :: cs => if c == sep then ([], cs) else let p := partition sep cs; (c :: p.1, p.2)

/-- run `f` over the items in order, concatenating; the first error wins (a `for` loop that
appends to a list and lets exceptions escape) -/
def collect {α β : Type} (f : α → Except TErr (List β)) : List α → Except TErr (List β)
  | [] => .ok []
  | a :: as =>
    match f a with
    | .error e => .error e
    | .ok bs =>
      match collect f as with
      | .error e => .error e
      | .ok cs => .ok (bs ++ cs)

/-! ### tables -/

/-- a `{native comparator: vers comparator}` dict in dict order; a value can be `None` -/
abbrev Dict := List (Str × Option Str)

def ofGen (d : List (String × Option String)) : Dict :=
  d.map (fun p => (p.1.toList, p.2.map String.toList))

/-- `vers_by_github_native_comparators` -/
def githubDict : Dict := ofGen Gen.githubComparators
/-- `vers_by_snyk_native_comparators` -/
def snykDict : Dict := ofGen Gen.snykComparators
/-- `<RangeClass>.vers_by_native_comparators`; `none` when the class has no such attribute -/
def nativeDict (cls : String) : Option Dict := (Gen.nativeComparators.lookup cls).map ofGen

/-- `RANGE_CLASS_BY_SCHEMES[scheme]`: the name of the range class -/
def rangeClassOf (scheme : String) : Option String := Gen.registry.lookup scheme

/-- `vrc.version_class`: the name of the version class of a range class -/
def versionClassOf (cls : String) : Option String :=
  match Gen.rangeClasses.find? (fun r => r.name == cls) with
  | some r => r.versionClass
  | none => none

/-- the comparator operator names of `COMPARATORS` -/
def cmprOfName : String → Option (Option Cmpr)
  | "ge" => some (some .ge) | "le" => some (some .le) | "ne" => some (some .ne)
  | "lt" => some (some .lt) | "gt" => some (some .gt) | "eq" => some (some .eq)
  | "star" => some none
  | _ => none

/-- `COMPARATORS[comparator]`: `some (some c)` a versioned comparator, `some none` the star,
`none` a `KeyError` -/
def cmprOfText (t : Str) : Option (Option Cmpr) :=
  match (Gen.comparators.map (fun p => (p.1.toList, p.2))).lookup t with
  | some n => cmprOfName n
  | none => none

/-- `VersionConstraint(comparator=c, version=v)` with `v` a version object (text = `str(v)`):
`__attrs_post_init__` turns the `KeyError` of `COMPARATORS[c]` into `ValueError`;
`c = None` is not a key either. -/
def mkCon (c : Option Str) (v : Str) : Except TErr TCon :=
  match c with
  | none => .error .ValueError
  | some t =>
    match cmprOfText t with
    | some (some k) => .ok (.mk k v)
    | some none => .ok .star
    | none => .error .ValueError

/-- `VersionConstraint(comparator=c, version=vrc.version_class(text))`: the version is built
first -/
def buildCon (mkVer : Str → Except TErr Str) (c : Option Str) (text : Str) : Except TErr TCon :=
  match mkVer text with
  | .error e => .error e
  | .ok v => mkCon c v

/-! ### `split_req` -/

/-- `split_req(string, comparators, default, strip)`: the dict is searched IN ORDER with
`startswith`; the key found is then removed with `lstrip`, which strips its character SET.
`dflt = none` is `default=None`; an empty default is falsy too. -/
def splitReq (string : Str) (comparators : Dict) (dflt : Option Str) (strip : Str) :
    Except TErr (Option Str × Str) :=
  let cs := stripSet strip (removeSpaces string)
  match comparators.find? (fun kv => kv.1.isPrefixOf cs) with
  | some kv => .ok (kv.2, lstripSet kv.1 cs)
  | none =>
    match dflt with
    | some d => if d.isEmpty then .error .ValueError else .ok (some d, cs)
    | none => .error .ValueError

/-- `split_req_bracket_notation(string)`; the two dicts are local to the function -/
def splitReqBracket (string : Str) : Except TErr (Option Str × Str) :=
  let cs := stripWs (removeSpaces string)
  if ['('].isPrefixOf cs then .ok (some ['>'], lstripSet ['('] cs)
  else if ['['].isPrefixOf cs then .ok (some ['>', '='], lstripSet ['['] cs)
  else if [')'].isSuffixOf cs then .ok (some ['<'], rstripSet [')'] cs)
  else if [']'].isSuffixOf cs then .ok (some ['<', '='], rstripSet [']'] cs)
  else .error .ValueError

/-! ### scheme lookup -/

/-- `vrc = RANGE_CLASS_BY_SCHEMES[scheme]` then `vrc.version_class`: the version constructor of
the scheme, or the error (`KeyError` for an unknown scheme; calling `None` is a `TypeError`). -/
def verOfScheme (mkVerOf : String → Str → Except TErr Str) (scheme : String) :
    Except TErr (Str → Except TErr Str) :=
  match rangeClassOf scheme with
  | none => .error .KeyError
  | some cls =>
    match versionClassOf cls with
    | some vc => .ok (mkVerOf vc)
    | none => .ok (fun _ => .error .TypeError)

/-! ### GitHub -/

/-- `build_constraint_from_github_advisory_string(scheme, string)` (scheme already resolved) -/
def githubConstraint (mkVer : Str → Except TErr Str) (string : Str) : Except TErr TCon :=
  match splitReq string githubDict none [] with
  | .error e => .error e
  | .ok (c, v) => buildCon mkVer c v

/-- the loop of `build_range_from_github_advisory_constraint` for a resolved scheme -/
def githubItems (mkVer : Str → Except TErr Str) (items : List Str) : Except TErr (List TCon) :=
  collect (fun item =>
    collect (fun c => match githubConstraint mkVer c with
                      | .error e => .error e | .ok k => .ok [k]) (splitOn ',' item)) items

/-- `build_range_from_github_advisory_constraint(scheme, string_or_list)`; a single string is
the one-element list -/
def fromGithub (mkVerOf : String → Str → Except TErr Str) (scheme : String) (items : List Str) :
    Except TErr (List TCon) :=
  match verOfScheme mkVerOf scheme with
  | .error e => .error e
  | .ok mkVer => githubItems mkVer items

/-! ### Snyk -/

/-- `any(comp in constraint for comp in "[]()")` -/
def hasBracket (s : Str) : Bool := s.any (fun c => c == '[' || c == ']' || c == '(' || c == ')')

/-- one `constraint` of the inner loop: `[]` when `if comparator and version:` drops it -/
def snykConstraint (mkVer : Str → Except TErr Str) (constraint : Str) : Except TErr (List TCon) :=
  match (if hasBracket constraint then splitReqBracket constraint
         else splitReq constraint snykDict none []) with
  | .error e => .error e
  | .ok (c, v) =>
    if (match c with | some t => !t.isEmpty | none => false) && !v.isEmpty then
      match buildCon mkVer c v with
      | .error e => .error e
      | .ok k => .ok [k]
    else .ok []

/-- the `constraints` list of one `item` -/
def snykSplit (item : Str) : List Str :=
  if item.contains ',' then splitOn ',' ((stripWs item).filter (fun c => c != ' '))
  else splitOn ' ' (stripWs item)

def snykItems (mkVer : Str → Except TErr Str) (items : List Str) : Except TErr (List TCon) :=
  collect (fun item => collect (snykConstraint mkVer) (snykSplit item)) items

/-- `build_range_from_snyk_advisory_string(scheme, string_or_list)` -/
def fromSnyk (mkVerOf : String → Str → Except TErr Str) (scheme : String) (items : List Str) :
    Except TErr (List TCon) :=
  match verOfScheme mkVerOf scheme with
  | .error e => .error e
  | .ok mkVer => snykItems mkVer items

/-! ### GitLab -/

/-- the token loop of `from_gitlab_native`; the state `comparator` is a Python `str`
(`some _`) or `None` (`none`: `"".join([None, item])` would be a `TypeError`; since the check
`if comparator is None: raise ValueError` after the dict lookup, the loop never enters that
state by itself). -/
def gitlabLoop (mkVer : Str → Except TErr Str) (dict : Dict) :
    Option Str → List Str → Except TErr (List TCon)
  | _, [] => .ok []
  | comparator, item :: rest =>
    if item.isEmpty then gitlabLoop mkVer dict comparator rest
    else
      match comparator with
      | none => .error .TypeError
      | some c =>
        match dict.lookup (c ++ item) with
        | some none => .error .ValueError
        | some (some v) => gitlabLoop mkVer dict (some v) rest
        | none =>
          let con : Except TErr TCon :=
            if !c.isEmpty then buildCon mkVer (some c) item
            else
              match splitReq item dict (some ['=']) [] with
              | .error e => .error e
              | .ok (c', v) => buildCon mkVer c' v
          match con with
          | .error e => .error e
          | .ok k =>
            match gitlabLoop mkVer dict (some []) rest with
            | .error e => .error e
            | .ok ks => .ok (k :: ks)

/-- the `constraint_items` of `from_gitlab_native` -/
def gitlabItems (sep : Char) (string : Str) : List Str :=
  (splitPipes string).flatMap (splitOn sep)

/-- the range classes whose `from_native` is used directly -/
def gitlabDelegated : List String := ["ConanVersionRange", "MavenVersionRange", "NugetVersionRange"]

/-- the purl scheme of a GitLab scheme: itself when it is one of the VALUES of
`PURL_TYPE_BY_GITLAB_SCHEME`, else `PURL_TYPE_BY_GITLAB_SCHEME[gitlab_scheme]` (`KeyError`) -/
def gitlabPurl (gitlabScheme : String) : Except TErr String :=
  if (Gen.gitlabSchemes.map (·.2)).contains gitlabScheme then .ok gitlabScheme
  else match Gen.gitlabSchemes.lookup gitlabScheme with
    | some p => .ok p
    | none => .error .KeyError

/-- the separator `split`: a comma for pypi, and for composer when the string has a comma -/
def gitlabSep (purlScheme : String) (string : Str) : Char :=
  if purlScheme == "pypi" then ','
  else if purlScheme == "composer" && string.contains ',' then ','
  else ' '

/-- `from_gitlab_native(gitlab_scheme, string)`.  `nativeOf purl_scheme string` is
`RANGE_CLASS_BY_SCHEMES[purl_scheme].from_native(string)` for conan / maven / nuget. -/
def fromGitlab (mkVerOf : String → Str → Except TErr Str)
    (nativeOf : String → Str → Except TErr (List TCon))
    (gitlabScheme : String) (string : Str) : Except TErr (List TCon) :=
  match gitlabPurl gitlabScheme with
  | .error e => .error e
  | .ok purlScheme =>
    match rangeClassOf purlScheme with
    | none => .error .KeyError
    | some cls =>
      if gitlabDelegated.contains cls then nativeOf purlScheme string
      else
        let items := gitlabItems (gitlabSep purlScheme string) string
        -- `vrc.vers_by_native_comparators` and `vrc.version_class` are only evaluated inside
        -- the loop, for a non-empty item
        if items.all (·.isEmpty) then .ok []
        else
          match nativeDict cls with
          | none => .error .AttributeError
          | some dict =>
            let mkVer : Str → Except TErr Str :=
              match versionClassOf cls with
              | some vc => mkVerOf vc
              | none => fun _ => .error .TypeError
            gitlabLoop mkVer dict (some []) items

/-! ### Debian, RPM -/

/-- `build_constraint_from_string` of `DebianVersionRange` (`strip=")("`) and `RpmVersionRange`
(`strip=","`) -/
def relConstraint (mkVer : Str → Except TErr Str) (dict : Dict) (strip : Str) (string : Str) :
    Except TErr TCon :=
  match splitReq string dict none strip with
  | .error e => .error e
  | .ok (c, v) => buildCon mkVer c v

/-- `from_natives(strings)` (a single string, i.e. `from_native`, is the one-element list) -/
def relNatives (mkVer : Str → Except TErr Str) (cls : String) (strip : Str) (strings : List Str) :
    Except TErr (List TCon) :=
  collect (fun s =>
    match nativeDict cls with
    | none => .error .AttributeError
    | some dict =>
      match relConstraint mkVer dict strip s with
      | .error e => .error e
      | .ok k => .ok [k]) strings

/-- `DebianVersionRange.from_natives` -/
def debNatives (mkVer : Str → Except TErr Str) (strings : List Str) : Except TErr (List TCon) :=
  relNatives mkVer "DebianVersionRange" [')', '('] strings

/-- `RpmVersionRange.from_natives` -/
def rpmNatives (mkVer : Str → Except TErr Str) (strings : List Str) : Except TErr (List TCon) :=
  relNatives mkVer "RpmVersionRange" [','] strings

/-! ### OpenSSL -/

/-- `OpensslVersionRange.from_native` -/
def opensslNative (mkVer : Str → Except TErr Str) (string : Str) : Except TErr (List TCon) :=
  collect (fun v => match buildCon mkVer (some ['=']) v with
                    | .error e => .error e | .ok k => .ok [k])
    (splitOn ',' (lower (removeSpaces string)))

/-! ### nginx -/

/-- what `NginxVersionRange.from_native` needs from `NginxVersion` -/
structure NginxOps where
  R : Type
  /-- `NginxVersion(text)` -/
  make : Str → Except TErr R
  /-- `str(version)` -/
  str : R → Str
  /-- `version.is_stable`: `is_even(self.minor)` -/
  isStable : R → Bool
  /-- `str(version.next_minor())` (`next_minor` builds a `SemverVersion`) -/
  nextMinor : R → Except TErr Str
  /-- `start_version == end_version` -/
  eq : R → R → Bool

def semverErr : Semver.PErr → TErr
  | .invalid => .InvalidVersion
  | .other n => .other n

/-- the Layer-A semver model as `NginxVersion` -/
def nginxSemver : NginxOps where
  R := Semver.Raw
  make s := match Semver.constructNginx s with
    | .ok r => .ok r
    | .error e => .error (semverErr e)
  str := Semver.str
  isStable r := r.minor % 2 == 0
  nextMinor r := match Semver.verNextMinor r with
    | .ok r' => .ok (Semver.str r')
    | .error e => .error (semverErr e)
  eq := Semver.verOps.eq

/-- one comma-separated clause of an nginx range -/
def nginxClause (o : NginxOps) (clause : Str) : Except TErr (List TCon) :=
  if clause.contains '-' then
    let p := partition '-' clause
    match o.make p.1 with
    | .error e => .error e
    | .ok s =>
      match o.make p.2 with
      | .error e => .error e
      | .ok e =>
        if o.eq s e then
          -- a range of a single version
          match mkCon (some ['=']) (o.str s) with
          | .ok a => .ok [a]
          | .error x => .error x
        else
          match mkCon (some ['>', '=']) (o.str s), mkCon (some ['<', '=']) (o.str e) with
          | .ok a, .ok b => .ok [a, b]
          | .error x, _ => .error x
          | _, .error x => .error x
  else if clause.contains '+' then
    let vs := rstripSet ['+'] clause
    match o.make vs with
    | .error e => .error e
    | .ok version =>
      if o.isStable version then
        match o.make vs with
        | .error e => .error e
        | .ok start =>
          match o.nextMinor start with
          | .error e => .error e
          | .ok t =>
            match o.make t with
            | .error e => .error e
            | .ok endv =>
              match mkCon (some ['>', '=']) (o.str start), mkCon (some ['<']) (o.str endv) with
              | .ok a, .ok b => .ok [a, b]
              | .error x, _ => .error x
              | _, .error x => .error x
      else
        match o.make vs with
        | .error e => .error e
        | .ok v =>
          match mkCon (some ['>', '=']) (o.str v) with
          | .ok a => .ok [a]
          | .error x => .error x
  else
    match o.make clause with
    | .error e => .error e
    | .ok v =>
      match mkCon (some ['=']) (o.str v) with
      | .ok a => .ok [a]
      | .error x => .error x

/-- `NginxVersionRange.from_native` -/
def nginxNative (o : NginxOps) (string : Str) : Except TErr (List TCon) :=
  let cleaned := lower (removeSpaces string)
  if cleaned == ['a', 'l', 'l'] then .ok [.star]
  else collect (nginxClause o) (splitOn ',' cleaned)

end Univers.Text.Advisory
