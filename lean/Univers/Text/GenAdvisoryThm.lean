/-
Agreement theorems for the advisory converters as translated from `univers/version_range.py` on every run
(`Univers/Gen/PyTextGithubCon.lean`, `PyTextGithubRange.lean`, `PyTextSnykRange.lean`):
`build_constraint_from_github_advisory_string`, `build_range_from_github_advisory_constraint` and
`build_range_from_snyk_advisory_string` are the model's `githubConstraint`, `fromGithub` and `fromSnyk` of
`Univers/Text/Advisory.lean`, which the theorems of C15 are about.

The advisory model reads ASCII text (`GenSplitReqThm.lean`); the scheme is a registered or unregistered name; a
`str`-or-list argument is the list.
-/
import Univers.Gen.PyTextGithubRange
import Univers.Gen.PyTextSnykRange
import Univers.Text.GenSplitReqThm
import Univers.Text.VersThm

namespace Univers.Gen.Text
open Univers Univers.PyRt Univers.Text Univers.Text.Vers Univers.Text.PyText

variable (mkVer : MkVer)

/-! ### the two run-times name the same tables -/

theorem versionClassOf_eq (cls : String) : Vers.versionClassOf cls = Advisory.versionClassOf cls := rfl

theorem lookup_map_toList {β : Type} (l : List (String × β)) (s : String) :
    (l.map (fun p => (p.1.toList, p.2))).lookup s.toList = l.lookup s := by
  induction l with
  | nil => rfl
  | cons p ps ih =>
    obtain ⟨a, b⟩ := p
    simp only [List.map_cons, List.lookup_cons]
    by_cases h : s = a
    · subst h
      have e1 : (s.toList == s.toList) = true := beq_self_eq_true _
      have e2 : (s == s) = true := beq_self_eq_true _
      simp only [e1, e2]
    · have h' : ¬ s.toList = a.toList := fun e => h (String.toList_inj.mp e)
      have e1 : (s.toList == a.toList) = false := beq_eq_false_iff_ne.mpr h'
      have e2 : (s == a) = false := beq_eq_false_iff_ne.mpr h
      simp only [e1, e2, ih]

theorem registryL_lookup (scheme : String) : registryL.lookup scheme.toList = Advisory.rangeClassOf scheme := by
  unfold registryL Advisory.rangeClassOf
  exact lookup_map_toList _ _

theorem lookupComparator_eq (k : List Char) : Vers.lookupComparator k = Advisory.cmprOfText k := by
  unfold Vers.lookupComparator Advisory.cmprOfText
  have : ∀ l : List (String × String),
      (match l.find? (fun p => p.1.toList == k) with
       | some p => Vers.cmprOfName p.2
       | none => none)
      = (match (l.map (fun p => (p.1.toList, p.2))).lookup k with
         | some n => Advisory.cmprOfName n
         | none => none) := by
    intro l
    induction l with
    | nil => rfl
    | cons p ps ih =>
      obtain ⟨a, b⟩ := p
      simp only [List.find?_cons, List.map_cons, List.lookup_cons]
      by_cases h : a.toList = k
      · subst h
        have e1 : (a.toList == a.toList) = true := beq_self_eq_true _
        simp only [e1]
        rfl
      · have h' : ¬ k = a.toList := fun e => h e.symm
        have e1 : (a.toList == k) = false := beq_eq_false_iff_ne.mpr h
        have e2 : (k == a.toList) = false := beq_eq_false_iff_ne.mpr h'
        simp only [e1, e2]
        exact ih
  exact this _

theorem mkTConOpt_eq (c : Option (List Char)) (v : List Char) : mkTConOpt c v = Advisory.mkCon c v := by
  unfold mkTConOpt Advisory.mkCon
  cases c with
  | none => rfl
  | some t =>
    simp only [mkTCon, lookupComparator_eq]
    cases Advisory.cmprOfText t with
    | none => rfl
    | some o => cases o <;> rfl

theorem splitChar_eq (sep : Char) (s : List Char) : Str.splitChar sep s = Advisory.splitOn sep s := by
  induction s with
  | nil => rfl
  | cons c cs ih =>
    simp only [Str.splitChar, Advisory.splitOn, ih]
    by_cases h : c = sep
    · simp [h]
    · simp only [h, ↓reduceIte, beq_iff_eq]
      cases Advisory.splitOn sep cs <;> rfl

theorem ascii_splitOn {sep : Char} {s : List Char} (h : Ascii s) : ∀ p ∈ Advisory.splitOn sep s, Ascii p := by
  induction s with
  | nil => intro p hp; simp [Advisory.splitOn] at hp; subst hp; intro c hc; cases hc
  | cons c cs ih =>
    have hcs : Ascii cs := fun d hd => h d (List.mem_cons_of_mem _ hd)
    have hc : c.toNat < 128 := h c (List.mem_cons_self ..)
    intro p hp
    simp only [Advisory.splitOn] at hp
    split at hp
    · rcases List.mem_cons.mp hp with rfl | hp
      · intro d hd; cases hd
      · exact ih hcs p hp
    · split at hp
      · simp at hp; subst hp
        intro d hd; simp at hd; subst hd; exact hc
      · rename_i hd tl heq
        rcases List.mem_cons.mp hp with rfl | hp
        · intro d hd'
          rcases List.mem_cons.mp hd' with rfl | hd'
          · exact hc
          · exact ih hcs hd (by rw [heq]; exact List.mem_cons_self ..) d hd'
        · exact ih hcs p (by rw [heq]; exact List.mem_cons_of_mem _ hp)

/-! ### the scheme -/

/-- the version constructor the translated code reaches for a registered class -/
theorem registered_versionClass {scheme : String} {cls : String} (h : Advisory.rangeClassOf scheme = some cls) :
    ∃ vc, Vers.versionClassOf cls = some vc := by
  have hm : (scheme, cls) ∈ Gen.registry := lookup_some_mem h
  have := registry_versionClass (scheme, cls) hm
  exact Option.isSome_iff_exists.mp this

/-! ### GitHub -/

/-- **`build_constraint_from_github_advisory_string` as translated is the model's `githubConstraint`** behind the
scheme lookup of `verOfScheme`. -/
theorem py_github_constraint_eq (scheme : String) (string : List Char) (hs : Ascii string) :
    py_github_constraint mkVer scheme.toList string
      = (match Advisory.verOfScheme mkVer scheme with
         | .error e => .error e
         | .ok mk => Advisory.githubConstraint mk string) := by
  unfold py_github_constraint Advisory.verOfScheme registryIndex
  rw [registryL_lookup]
  cases hc : Advisory.rangeClassOf scheme with
  | none => rfl
  | some cls =>
    obtain ⟨vc, hvc⟩ := registered_versionClass hc
    have hvc' : Advisory.versionClassOf cls = some vc := by rw [← versionClassOf_eq]; exact hvc
    simp only [bind, Except.bind, py_split_req_eq (mkVer "") string hs, hvc', Advisory.githubConstraint,
      Advisory.githubDict, versionClassOfE, hvc]
    cases Advisory.splitReq string (Advisory.ofGen Gen.githubComparators) none [] with
    | error e => rfl
    | ok cv =>
      obtain ⟨c, v⟩ := cv
      simp only [Advisory.buildCon]
      cases mkVer vc v with
      | error e => rfl
      | ok w => exact mkTConOpt_eq c w

/-- the inner loop (`for constraint in constraint_strings`) is `collect` over the pieces -/
theorem github_inner_eq (scheme : String) (mk : List Char → Except TErr (List Char))
    (hmk : Advisory.verOfScheme mkVer scheme = .ok mk) (string : List (List Char)) (vrc : String) (item : List Char)
    (cstrs : List (List Char)) (cs : List (List Char)) (hcs : ∀ c ∈ cs, Ascii c) (acc : List TCon) :
    pyFor cs acc (py_github_range_for2_body mkVer scheme.toList string vrc item cstrs)
        (py_github_range_for2_after mkVer scheme.toList string vrc item cstrs)
      = (match Advisory.collect (fun c => match Advisory.githubConstraint mk c with
                                          | .error e => .error e | .ok k => .ok [k]) cs with
         | .error e => .error e
         | .ok ks => .ok (.next (acc ++ ks))) := by
  induction cs generalizing acc with
  | nil => simp [py_github_range_for2_after, Advisory.collect]
  | cons c cs ih =>
    have hc : Ascii c := hcs c (List.mem_cons_self ..)
    have hrest : ∀ d ∈ cs, Ascii d := fun d hd => hcs d (List.mem_cons_of_mem _ hd)
    simp only [pyFor_cons, py_github_range_for2_body, py_github_constraint_eq mkVer scheme c hc, hmk, Advisory.collect,
      bind, Except.bind]
    cases Advisory.githubConstraint mk c with
    | error e => rfl
    | ok k =>
      simp only [Step.cont_next]
      rw [ih hrest]
      cases Advisory.collect (fun c => match Advisory.githubConstraint mk c with
                                       | .error e => .error e | .ok k => .ok [k]) cs with
      | error e => rfl
      | ok ks => simp

/-- the outer loop (`for item in string`) -/
theorem github_outer_eq (scheme : String) (mk : List Char → Except TErr (List Char))
    (hmk : Advisory.verOfScheme mkVer scheme = .ok mk) (string : List (List Char)) (vrc : String)
    (items : List (List Char)) (hitems : ∀ i ∈ items, Ascii i) (acc : List TCon) :
    pyFor items acc (py_github_range_for1_body mkVer scheme.toList string vrc)
        (py_github_range_for1_after mkVer scheme.toList string vrc)
      = (match Advisory.githubItems mk items with
         | .error e => .error e
         | .ok ks => .ok (vrc, acc ++ ks)) := by
  induction items generalizing acc with
  | nil => simp [py_github_range_for1_after, Advisory.githubItems, Advisory.collect]
  | cons i items ih =>
    have hi : Ascii i := hitems i (List.mem_cons_self ..)
    have hrest : ∀ d ∈ items, Ascii d := fun d hd => hitems d (List.mem_cons_of_mem _ hd)
    simp only [pyFor_cons, py_github_range_for1_body, splitChar_eq]
    rw [github_inner_eq mkVer scheme mk hmk string vrc i _ _ (ascii_splitOn hi)]
    simp only [Advisory.githubItems, Advisory.collect]
    cases Advisory.collect (fun c => match Advisory.githubConstraint mk c with
                                     | .error e => .error e | .ok k => .ok [k]) (Advisory.splitOn ',' i) with
    | error e => rfl
    | ok ks =>
      simp only [Step.cont_next]
      rw [ih hrest]
      simp only [Advisory.githubItems]
      cases Advisory.collect (fun item => Advisory.collect (fun c => match Advisory.githubConstraint mk c with
                                     | .error e => .error e | .ok k => .ok [k]) (Advisory.splitOn ',' item)) items with
      | error e => rfl
      | ok rest => simp

/-- `verOfScheme` answers for exactly the registered schemes -/
theorem verOfScheme_cases (scheme : String) :
    (Advisory.rangeClassOf scheme = none ∧ Advisory.verOfScheme mkVer scheme = .error .KeyError)
    ∨ (∃ cls mk, Advisory.rangeClassOf scheme = some cls ∧ Advisory.verOfScheme mkVer scheme = .ok mk) := by
  unfold Advisory.verOfScheme
  cases Advisory.rangeClassOf scheme with
  | none => exact Or.inl ⟨rfl, rfl⟩
  | some cls =>
    right
    cases hv : Advisory.versionClassOf cls with
    | none => exact ⟨cls, fun _ => .error .TypeError, rfl, by simp only [hv]⟩
    | some vc => exact ⟨cls, mkVer vc, rfl, by simp only [hv]⟩

/-- **`build_range_from_github_advisory_constraint` as translated is the model's `fromGithub`**, with the class of the
range it builds: the registered class of the scheme. -/
theorem py_github_range_eq (scheme : String) (items : List (List Char)) (hitems : ∀ i ∈ items, Ascii i) :
    py_github_range mkVer scheme.toList items
      = (match Advisory.rangeClassOf scheme with
         | none => .error .KeyError
         | some cls =>
           match Advisory.fromGithub mkVer scheme items with
           | .error e => .error e
           | .ok ks => .ok (cls, ks)) := by
  unfold py_github_range registryIndex Advisory.fromGithub
  rw [registryL_lookup]
  rcases verOfScheme_cases mkVer scheme with ⟨h1, h2⟩ | ⟨cls, mk, h1, h2⟩
  · simp only [h1]; rfl
  · simp only [h1, h2, bind, Except.bind]
    rw [github_outer_eq mkVer scheme mk h2 items cls items hitems []]
    simp

/-! ### Snyk -/

theorem anyCharIn_brackets (s : List Char) : anyCharIn ['[', ']', '(', ')'] s = Advisory.hasBracket s := by
  unfold anyCharIn Advisory.hasBracket
  rw [Bool.eq_iff_iff]
  simp only [List.any_cons, List.any_nil, Bool.or_false, Bool.or_eq_true, List.contains_iff_mem, List.any_eq_true,
    beq_iff_eq]
  constructor
  · rintro (h | h | h | h)
    · exact ⟨_, h, Or.inl (Or.inl (Or.inl rfl))⟩
    · exact ⟨_, h, Or.inl (Or.inl (Or.inr rfl))⟩
    · exact ⟨_, h, Or.inl (Or.inr rfl)⟩
    · exact ⟨_, h, Or.inr rfl⟩
  · rintro ⟨c, hc, (((rfl | rfl) | rfl) | rfl)⟩
    · exact Or.inl hc
    · exact Or.inr (Or.inl hc)
    · exact Or.inr (Or.inr (Or.inl hc))
    · exact Or.inr (Or.inr (Or.inr hc))

/-- what the model does with the outcome of the split of one constraint -/
def snykOut (mk : List Char → Except TErr (List Char)) (r : Except TErr (Option (List Char) × List Char)) :
    Except TErr (List TCon) :=
  match r with
  | .error e => .error e
  | .ok (c, v) =>
    if (match c with | some t => !t.isEmpty | none => false) && !v.isEmpty then
      match Advisory.buildCon mk c v with
      | .error e => .error e
      | .ok k => .ok [k]
    else .ok []

theorem snykConstraint_out (mk : List Char → Except TErr (List Char)) :
    Advisory.snykConstraint mk = fun c => snykOut mk (if Advisory.hasBracket c then Advisory.splitReqBracket c
      else Advisory.splitReq c Advisory.snykDict none []) := rfl

/-- what one round of the translated inner loop does with the outcome of the split -/
def snykStep (mk : List Char → Except TErr (List Char)) (acc : List TCon)
    (r : Except TErr (Option (List Char) × List Char)) : Except TErr (Step (List TCon) (Step (List TCon) (String × List TCon))) :=
  match r with
  | .error e => .error e
  | .ok (cmp, v) =>
    if (truthyOpt cmp && !v.isEmpty) = true then
      match Advisory.buildCon mk cmp v with
      | .error e => .error e
      | .ok k => .ok (.next (acc ++ [k]))
    else .ok (.next acc)

theorem snyk_round (mk : List Char → Except TErr (List Char)) (acc : List TCon)
    (r : Except TErr (Option (List Char) × List Char))
    (n k : List TCon → Except TErr (Step (List TCon) (String × List TCon))) :
    Step.cont (snykStep mk acc r) n k
      = (match snykOut mk r with
         | .error e => .error e
         | .ok bs => n (acc ++ bs)) := by
  cases r with
  | error e => rfl
  | ok cv =>
    obtain ⟨cmp, v⟩ := cv
    cases cmp with
    | none => simp [snykStep, snykOut, truthyOpt]
    | some t =>
      simp only [snykStep, snykOut, truthyOpt]
      by_cases hk : (!t.isEmpty && !v.isEmpty) = true
      · simp only [hk, ↓reduceIte]
        cases Advisory.buildCon mk (some t) v <;> rfl
      · simp only [hk, Bool.false_eq_true, ↓reduceIte, Step.cont_next, List.append_nil]

/-- the statements of the inner loop body after the split, for a class whose version class is `vc` -/
theorem snyk_one_eq (vrc vc : String) (hvc : Vers.versionClassOf vrc = some vc) (acc : List TCon)
    (r : Except TErr (Option (List Char) × List Char)) :
    (r >>= fun (x : Option (List Char) × List Char) =>
      match x with
      | (comparator, version) =>
        if (truthyOpt comparator && !version.isEmpty) = true then
          ((versionClassOfE vrc >>= fun t => mkVer t version) >>= fun version =>
            (mkTConOpt comparator version >>= fun t2 =>
              (Except.ok (Step.next (acc ++ [t2])) : Except TErr (Step (List TCon) (Step (List TCon) (String × List TCon))))))
        else .ok (.next acc))
      = snykStep (mkVer vc) acc r := by
  cases r with
  | error e => rfl
  | ok cv =>
    obtain ⟨cmp, v⟩ := cv
    simp only [bind, Except.bind, snykStep, versionClassOfE, hvc, Advisory.buildCon]
    by_cases hk : (truthyOpt cmp && !v.isEmpty) = true
    · simp only [hk, ↓reduceIte]
      cases mkVer vc v with
      | error e => rfl
      | ok w =>
        simp only [mkTConOpt_eq]
        cases Advisory.mkCon cmp w <;> rfl
    · simp only [hk, Bool.false_eq_true, ↓reduceIte]

theorem snyk_inner2_eq (scheme : List Char) (vrc vc : String) (hvc : Vers.versionClassOf vrc = some vc)
    (string : List (List Char)) (item delim sc : List Char) (cstrs : List (List Char))
    (cs : List (List Char)) (hcs : ∀ c ∈ cs, Ascii c) (acc : List TCon) :
    pyFor cs acc (py_snyk_range_for2_body mkVer scheme string vrc item delim sc cstrs)
        (py_snyk_range_for2_after mkVer scheme string vrc item delim sc cstrs)
      = (match Advisory.collect (Advisory.snykConstraint (mkVer vc)) cs with
         | .error e => .error e
         | .ok ks => .ok (.next (acc ++ ks))) := by
  induction cs generalizing acc with
  | nil => simp [py_snyk_range_for2_after, Advisory.collect]
  | cons c cs ih =>
    have hc : Ascii c := hcs c (List.mem_cons_self ..)
    have hrest : ∀ d ∈ cs, Ascii d := fun d hd => hcs d (List.mem_cons_of_mem _ hd)
    simp only [pyFor_cons, py_snyk_range_for2_body, anyCharIn_brackets, py_split_req_bracket_eq (mkVer "") c hc,
      py_split_req_eq (mkVer "") c hc, Advisory.collect, Advisory.snykDict]
    rw [show Advisory.snykConstraint (mkVer vc) c = snykOut (mkVer vc) (if Advisory.hasBracket c then Advisory.splitReqBracket c
      else Advisory.splitReq c (Advisory.ofGen Gen.snykComparators) none []) from rfl]
    by_cases hb : Advisory.hasBracket c = true
    · simp only [hb, ↓reduceIte]
      rw [snyk_one_eq mkVer vrc vc hvc, snyk_round]
      cases snykOut (mkVer vc) (Advisory.splitReqBracket c) with
      | error e => rfl
      | ok bs =>
        simp only []
        rw [ih hrest]
        cases Advisory.collect (Advisory.snykConstraint (mkVer vc)) cs with
        | error e => rfl
        | ok ks => simp
    · simp only [hb, Bool.false_eq_true, ↓reduceIte]
      rw [snyk_one_eq mkVer vrc vc hvc, snyk_round]
      cases snykOut (mkVer vc) (Advisory.splitReq c (Advisory.ofGen Gen.snykComparators) none []) with
      | error e => rfl
      | ok bs =>
        simp only []
        rw [ih hrest]
        cases Advisory.collect (Advisory.snykConstraint (mkVer vc)) cs with
        | error e => rfl
        | ok ks => simp

theorem snyk_inner3_eq (scheme : List Char) (vrc vc : String) (hvc : Vers.versionClassOf vrc = some vc)
    (string : List (List Char)) (item delim sc : List Char) (cstrs : List (List Char))
    (cs : List (List Char)) (hcs : ∀ c ∈ cs, Ascii c) (acc : List TCon) :
    pyFor cs acc (py_snyk_range_for3_body mkVer scheme string vrc item delim sc cstrs)
        (py_snyk_range_for3_after mkVer scheme string vrc item delim sc cstrs)
      = (match Advisory.collect (Advisory.snykConstraint (mkVer vc)) cs with
         | .error e => .error e
         | .ok ks => .ok (.next (acc ++ ks))) := by
  induction cs generalizing acc with
  | nil => simp [py_snyk_range_for3_after, Advisory.collect]
  | cons c cs ih =>
    have hc : Ascii c := hcs c (List.mem_cons_self ..)
    have hrest : ∀ d ∈ cs, Ascii d := fun d hd => hcs d (List.mem_cons_of_mem _ hd)
    simp only [pyFor_cons, py_snyk_range_for3_body, anyCharIn_brackets, py_split_req_bracket_eq (mkVer "") c hc,
      py_split_req_eq (mkVer "") c hc, Advisory.collect, Advisory.snykDict]
    rw [show Advisory.snykConstraint (mkVer vc) c = snykOut (mkVer vc) (if Advisory.hasBracket c then Advisory.splitReqBracket c
      else Advisory.splitReq c (Advisory.ofGen Gen.snykComparators) none []) from rfl]
    by_cases hb : Advisory.hasBracket c = true
    · simp only [hb, ↓reduceIte]
      rw [snyk_one_eq mkVer vrc vc hvc, snyk_round]
      cases snykOut (mkVer vc) (Advisory.splitReqBracket c) with
      | error e => rfl
      | ok bs =>
        simp only []
        rw [ih hrest]
        cases Advisory.collect (Advisory.snykConstraint (mkVer vc)) cs with
        | error e => rfl
        | ok ks => simp
    · simp only [hb, Bool.false_eq_true, ↓reduceIte]
      rw [snyk_one_eq mkVer vrc vc hvc, snyk_round]
      cases snykOut (mkVer vc) (Advisory.splitReq c (Advisory.ofGen Gen.snykComparators) none []) with
      | error e => rfl
      | ok bs =>
        simp only []
        rw [ih hrest]
        cases Advisory.collect (Advisory.snykConstraint (mkVer vc)) cs with
        | error e => rfl
        | ok ks => simp

theorem ascii_stripWs {s : List Char} (h : Ascii s) : Ascii (Advisory.stripWs s) := by
  intro c hc
  unfold Advisory.stripWs at hc
  have h1 := (List.dropWhile_sublist _).subset (List.mem_reverse.mp hc)
  exact h c ((List.dropWhile_sublist _).subset (List.mem_reverse.mp h1))

theorem ascii_filter {s : List Char} (p : Char → Bool) (h : Ascii s) : Ascii (s.filter p) :=
  fun c hc => h c (List.mem_filter.mp hc).1

/-- the outer loop (`for item in string`) -/
theorem snyk_outer_eq (scheme : List Char) (vrc vc : String) (hvc : Vers.versionClassOf vrc = some vc)
    (string : List (List Char)) (items : List (List Char)) (hitems : ∀ i ∈ items, Ascii i) (acc : List TCon) :
    pyFor items acc (py_snyk_range_for1_body mkVer scheme string vrc) (py_snyk_range_for1_after mkVer scheme string vrc)
      = (match Advisory.snykItems (mkVer vc) items with
         | .error e => .error e
         | .ok ks => .ok (vrc, acc ++ ks)) := by
  induction items generalizing acc with
  | nil => simp [py_snyk_range_for1_after, Advisory.snykItems, Advisory.collect]
  | cons i items ih =>
    have hi : Ascii i := hitems i (List.mem_cons_self ..)
    have hrest : ∀ d ∈ items, Ascii d := fun d hd => hitems d (List.mem_cons_of_mem _ hd)
    have key : Step.cont (match Advisory.collect (Advisory.snykConstraint (mkVer vc)) (Advisory.snykSplit i) with
                          | .error e => .error e
                          | .ok ks => (.ok (.next (acc ++ ks)) : Except TErr (Step (List TCon) (String × List TCon))))
          (fun st' => pyFor items st' (py_snyk_range_for1_body mkVer scheme string vrc)
            (py_snyk_range_for1_after mkVer scheme string vrc))
          (py_snyk_range_for1_after mkVer scheme string vrc)
        = (match Advisory.snykItems (mkVer vc) (i :: items) with
           | .error e => .error e
           | .ok ks => .ok (vrc, acc ++ ks)) := by
      simp only [Advisory.snykItems, Advisory.collect]
      cases Advisory.collect (Advisory.snykConstraint (mkVer vc)) (Advisory.snykSplit i) with
      | error e => rfl
      | ok ks =>
        simp only [Step.cont_next]
        rw [ih hrest]
        simp only [Advisory.snykItems]
        cases Advisory.collect (fun item => Advisory.collect (Advisory.snykConstraint (mkVer vc)) (Advisory.snykSplit item)) items with
        | error e => rfl
        | ok rest => simp
    rw [← key]
    simp only [pyFor_cons, py_snyk_range_for1_body, Advisory.snykSplit, splitChar_eq, stripWs_ascii hi, removeChar]
    by_cases hcomma : i.contains ',' = true
    · have hd : (([','] : List Char) == [',']) = true := by decide
      simp only [hcomma, ↓reduceIte, hd]
      rw [snyk_inner2_eq mkVer scheme vrc vc hvc string i _ _ _ _
        (ascii_splitOn (ascii_filter _ (ascii_stripWs hi)))]
    · have hd : (([' '] : List Char) == [',']) = false := by decide
      simp only [hcomma, Bool.false_eq_true, ↓reduceIte, hd]
      rw [snyk_inner3_eq mkVer scheme vrc vc hvc string i _ _ _ _ (ascii_splitOn (ascii_stripWs hi))]

/-- **`build_range_from_snyk_advisory_string` as translated is the model's `fromSnyk`**, with the class of the range
it builds: the registered class of the scheme. -/
theorem py_snyk_range_eq (scheme : String) (items : List (List Char)) (hitems : ∀ i ∈ items, Ascii i) :
    py_snyk_range mkVer scheme.toList items
      = (match Advisory.rangeClassOf scheme with
         | none => .error .KeyError
         | some cls =>
           match Advisory.fromSnyk mkVer scheme items with
           | .error e => .error e
           | .ok ks => .ok (cls, ks)) := by
  unfold py_snyk_range registryIndex Advisory.fromSnyk Advisory.verOfScheme
  rw [registryL_lookup]
  cases hc : Advisory.rangeClassOf scheme with
  | none => rfl
  | some cls =>
    obtain ⟨vc, hvc⟩ := registered_versionClass hc
    have hvc' : Advisory.versionClassOf cls = some vc := by rw [← versionClassOf_eq]; exact hvc
    simp only [hvc', bind, Except.bind]
    rw [snyk_outer_eq mkVer scheme.toList cls vc hvc items items hitems []]
    simp

/-! ### the hypotheses are met, and the translated code computes -/

instance (s : List Char) : Decidable (Ascii s) := by unfold Ascii; infer_instance

example : ∀ i ∈ [">= 1.0, < 2.0".toList, "[3.0,3.1)".toList], Ascii i := by decide

example : py_github_range (fun _ v => .ok v) "npm".toList [">= 1.0, < 2.0".toList]
    = .ok ("NpmVersionRange", [.mk .ge "1.0".toList, .mk .lt "2.0".toList]) := by rfl

example : py_snyk_range (fun _ v => .ok v) "pypi".toList [">=4.0.0, <4.0.10".toList, "(,9.21]".toList]
    = .ok ("PypiVersionRange", [.mk .ge "4.0.0".toList, .mk .lt "4.0.10".toList, .mk .le "9.21".toList]) := by
  rfl

example : py_github_range (fun _ v => .ok v) "nosuchscheme".toList [">= 1.0".toList] = .error .KeyError := by
  rfl

end Univers.Gen.Text
