/-
Layer C — SPEC of the `vers` notation (declarative reading; nothing here is computed by the
model): the abstract syntax, which version texts can be written down safely, every accepted
spelling of a range expression, the constraints the expression states, and what the registry
tables must satisfy.

  vers-string   = "vers" ":" scheme "/" ( "*" | constraint *( "|" constraint ) )
  constraint    = [ comparator ] version            ; no comparator means "="
  comparator    = ">=" | "<=" | "!=" | "<" | ">" | "="

Accepted spellings of one expression: whitespace anywhere, any letter case for `vers` and for
the scheme, stray `|` before and after the list (also around the lone star), `=` written or
omitted.
-/
import Univers.Text.Vers

namespace Univers.Text.Vers

open Univers.Text.Str

/-! ### abstract syntax -/

/-- a range expression: the versioning scheme and the constraints, as text -/
structure Expr where
  scheme : List Char
  items : List TCon

/-- the constraints the expression states -/
def constraintsOf (e : Expr) : List TCon := e.items

/-! ### safe version text -/

/-- characters that cannot start a version text without being read as (part of) a comparator
or as the star -/
def comparatorChars : List Char := ['<', '>', '=', '!', '*']

/-- version text that can be written in a vers string and read back: non-empty, no `|`, no
whitespace, and its first character is none of `<>=!*` -/
def textSafe (v : List Char) : Bool :=
  !v.isEmpty && v.all (fun c => !isSpace c && c != '|') &&
  (match v with | c :: _ => !comparatorChars.contains c | [] => false)

abbrev TextSafe (v : List Char) : Prop := textSafe v = true

/-- a constraint whose version text is safe and is the canonical text of the version class
`mk` (`str(version_class(v)) == v`: printing is idempotent) -/
def ConOk (mk : List Char → Except TErr (List Char)) : TCon → Prop
  | .star => True
  | .mk _ v => TextSafe v ∧ mk v = .ok v

/-- the scheme is registered, and `vc` is the name of its version class -/
def Registered (scheme : List Char) (vc : String) : Prop :=
  ∃ cls, registryL.lookup scheme = some cls ∧ versionClassOf cls = some vc

/-- the lists the loop of `from_string` can sort: a lone star, or no star at all -/
def StarAlone (items : List TCon) : Prop :=
  items = [.star] ∨ items.all (fun c => !c.isStar) = true

/-! ### spellings -/

/-- `print c v`: a comparator followed by the version text, `=` omitted (`__str__`) -/
def print (c : Cmpr) (v : List Char) : List Char := conStr (.mk c v)

/-- the spellings of one constraint -/
inductive ConSpelling : TCon → List Char → Prop
  | star : ConSpelling .star ['*']
  | bare (v : List Char) : ConSpelling (.mk .eq v) v
  | explicit (c : Cmpr) (v : List Char) : ConSpelling (.mk c v) (c.text.toList ++ v)

/-- item by item, `texts` are spellings of `items` -/
inductive Spelled : List TCon → List (List Char) → Prop
  | nil : Spelled [] []
  | cons {c : TCon} {t : List Char} {cs : List TCon} {ts : List (List Char)} :
      ConSpelling c t → Spelled cs ts → Spelled (c :: cs) (t :: ts)

/-- `n` stray separators -/
def bars (n : Nat) : List Char := List.replicate n '|'

/-- the text `t` is a spelling of the expression `e` -/
def Renders (e : Expr) (t : List Char) : Prop :=
  ∃ (uri scheme : List Char) (texts : List (List Char)) (n m : Nat),
    lower uri = ['v', 'e', 'r', 's'] ∧
    lower scheme = e.scheme ∧
    Spelled e.items texts ∧
    removeSpaces t = uri ++ ':' :: scheme ++ '/' :: (bars n ++ join ['|'] texts ++ bars m)

/-! ### registry tables -/

/-- every range class that declares a scheme is registered under it -/
def RegistryComplete : Prop :=
  ∀ rc ∈ Gen.rangeClasses, ∀ s, rc.scheme = some s → (s, rc.name) ∈ Gen.registry

instance : Decidable RegistryComplete := by unfold RegistryComplete; infer_instance

/-- every registry entry names a range class whose `scheme` is the key -/
def RegistrySound : Prop :=
  ∀ p ∈ Gen.registry, ∃ rc ∈ Gen.rangeClasses, rc.name = p.2 ∧ rc.scheme = some p.1

instance : Decidable RegistrySound := by unfold RegistrySound; infer_instance

end Univers.Text.Vers
