/-
The bracket tables of the Snyk notation (`split_req_bracket_notation`), regenerated from /repo on every run (by
asking the function what each bracket means), are the ones the advisory model was written for.  Kept apart from
`Scheme/TablesThm.lean`: these tables matter to the advisory converters (C15, C16), not to the version orders.
-/
import Univers.Gen.SchemeTables

namespace Univers.Tables

/-- the dicts of `split_req_bracket_notation` -/
theorem snyk_brackets :
    Gen.snykBracketFront = [("(", ">"), ("[", ">=")] ∧ Gen.snykBracketRear = [(")", "<"), ("]", "<=")] := by decide

end Univers.Tables
