/-
Text layer — SPEC of the Conan version-range notation
(https://docs.conan.io/2/tutorial/versioning/version_ranges.html):

    range      := alternative ("||" alternative)* ("," option)*
    alternative:= condition (whitespace condition)*          -- a conjunction
    condition  := (">" | "<" | ">=" | "<=" | "=" | "") version ["-"]
                | "~" version ["-"]       tilde: >= version, < the next minor (next major for one item)
                | "^" version ["-"]       caret: >= version, < the bump of the first non-zero item
                | "*" | "" ["-"]          anything: >= 0.0.0
    a trailing "-" on a condition, or an option containing `include_prerelease`, admits pre-releases

The upper bounds of `~` and `^` are `upper_bound(index)`: the items before `index`, the item at
`index` plus one, and a trailing `-` ("below every pre-release of it"): `~1.2.3` is
`>=1.2.3 <1.3-`, `^1.2.3` is `>=1.2.3 <2-`, `^0.1.2` is `>=0.1.2 <0.2-`, `^0.0` is `>=0.0 <0.1-` (all items zero:
the last one is bumped).

Also here: `numOps`, a LOCAL instance of the version interface on plain dotted numeric versions
(`1.2.3`; and `1.3-`, the shape of an upper bound), used to state the exactness theorems in closed
form without the Layer-A model of `ConanVersion`.
-/
import Univers.Text.ConanRange

namespace Univers.Text.ConanRange

open Univers Univers.Text

/-- one condition -/
inductive Expr where
  /-- `>v`, `<v`, `>=v`, `<=v`, `=v` and the bare `v` -/
  | cmp (c : Cmpr) (v : List Char)
  | tilde (v : List Char)
  | caret (v : List Char)
  /-- `*` (and the empty condition) -/
  | any
  deriving Repr, DecidableEq

/-- the operator texts of the notation (`!=` is not part of it) -/
def opText : Cmpr → List Char
  | .gt => ['>'] | .lt => ['<'] | .ge => ['>', '='] | .le => ['<', '='] | .eq => ['=']
  | .ne => ['!', '=']

/-- a version text that may be written without operator: it does not start with an operator
character and is not the star -/
def bareOk (v : List Char) : Bool :=
  match v with
  | [] => false
  | c :: _ => !(c == '>' || c == '<' || c == '^' || c == '~' || c == '=') && v != ['*']

/-- a version text after an operator `>` or `<`: it must not start with `=` (that would be read as
part of the operator) -/
def afterAngleOk (v : List Char) : Bool :=
  match v with
  | '=' :: _ => false
  | _ => true

/-- the spellings of one condition, without the pre-release marker -/
inductive Expr.Spelled : Expr → List Char → Prop where
  | gt (v : List Char) : afterAngleOk v = true → Spelled (.cmp .gt v) ('>' :: v)
  | lt (v : List Char) : afterAngleOk v = true → Spelled (.cmp .lt v) ('<' :: v)
  | ge (v : List Char) : Spelled (.cmp .ge v) ('>' :: '=' :: v)
  | le (v : List Char) : Spelled (.cmp .le v) ('<' :: '=' :: v)
  | eq (v : List Char) : Spelled (.cmp .eq v) ('=' :: v)
  | bare (v : List Char) : bareOk v = true → Spelled (.cmp .eq v) v
  | tilde (v : List Char) : Spelled (.tilde v) ('~' :: v)
  | caret (v : List Char) : Spelled (.caret v) ('^' :: v)
  | star : Spelled .any ['*']
  | empty : Spelled .any []

/-- the version text of a condition -/
def Expr.version : Expr → Option (List Char)
  | .cmp _ v => some v
  | .tilde v => some v
  | .caret v => some v
  | .any => none

/-- what a condition states, in terms of the version interface: the `_Condition`s -/
def Expr.conds {V : Type} (o : ConanOps V) : Expr → Except TErr (List Cond)
  | .cmp c v =>
    match o.make v with
    | .error e => .error e
    | .ok x => .ok [(c, o.str x)]
  | .tilde v =>
    match o.make v with
    | .error e => .error e
    | .ok x =>
      match o.upperBound x (tildeIndex o x) with
      | .error e => .error e
      | .ok u => .ok [(.ge, o.str x), (.lt, u)]
  | .caret v =>
    match o.make v with
    | .error e => .error e
    | .ok x =>
      match o.upperBound x (o.firstNonZero x) with
      | .error e => .error e
      | .ok u => .ok [(.ge, o.str x), (.lt, u)]
  | .any =>
    match o.make ['0', '.', '0', '.', '0'] with
    | .error e => .error e
    | .ok x => .ok [(.ge, o.str x)]

/-- a safe version text of the notation: non-empty, no whitespace, no comma, no bar -/
def safeV (t : List Char) : Bool :=
  !t.isEmpty && t.all (fun c => !isPySpace c && c != ',' && c != '|')

/-- a condition whose version text is safe and non-empty (`>`, `~` … followed by nothing are errors) -/
def Expr.safe : Expr → Bool
  | .cmp c v => safeV v && c != .ne
  | .tilde v => safeV v
  | .caret v => safeV v
  | .any => true

/-! ### whole ranges: layout and meaning -/

/-- a condition as written: the condition, whether it carries the pre-release marker `-`, and the
whitespace that follows it -/
structure Item where
  e : Expr
  marked : Bool
  ws : List Char
  deriving Repr

/-- an alternative as written: leading whitespace and the conditions -/
structure Alt where
  lead : List Char
  items : List Item
  deriving Repr

def allWs (w : List Char) : Bool := w.all isPySpace

/-- the field of an item: a spelling `t` of the condition that does not itself end in `-`, with
the marker appended if any; never empty -/
def Item.Field (i : Item) (f : List Char) : Prop :=
  ∃ t, Expr.Spelled i.e t ∧ t.getLast? ≠ some '-' ∧ f = (if i.marked then t ++ ['-'] else t) ∧ f ≠ []

/-- the spellings of the conditions of an alternative: every field followed by its whitespace,
which is not empty except possibly after the last one -/
inductive ItemsSpelled : List Item → List Char → Prop where
  | nil : ItemsSpelled [] []
  | last (i : Item) (f : List Char) : i.Field f → allWs i.ws = true → ItemsSpelled [i] (f ++ i.ws)
  | cons (i : Item) (f : List Char) (is : List Item) (t : List Char) :
      i.Field f → allWs i.ws = true → i.ws ≠ [] → ItemsSpelled is t →
      ItemsSpelled (i :: is) (f ++ i.ws ++ t)

def Alt.Spelled (a : Alt) (t : List Char) : Prop :=
  ∃ t', ItemsSpelled a.items t' ∧ allWs a.lead = true ∧ t = a.lead ++ t'

/-- alternatives joined by `||` -/
inductive AltsSpelled : List Alt → List Char → Prop where
  | one (a : Alt) (t : List Char) : a.Spelled t → AltsSpelled [a] t
  | cons (a : Alt) (t : List Char) (as : List Alt) (ts : List Char) :
      a.Spelled t → AltsSpelled as ts → AltsSpelled (a :: as) (t ++ '|' :: '|' :: ts)

/-- the option part: nothing, or a comma and the options -/
def optionsText : Option (List Char) → List Char
  | none => []
  | some r => ',' :: r

/-- whether the options ask for pre-releases -/
def optionsPre : Option (List Char) → Bool
  | none => false
  | some r => (splitOn ',' r).any (hasInfix "include_prerelease".toList)

/-- a range as written -/
def RangeSpelled (as : List Alt) (opts : Option (List Char)) (t : List Char) : Prop :=
  ∃ t', AltsSpelled as t' ∧ t = t' ++ optionsText opts

/-- what an alternative states: the conditions of its items in order (a conjunction); pre-releases
are admitted when asked for by an option or by a marker -/
def altMeaning {V : Type} (o : ConanOps V) : List Item → Bool → Except TErr CondSet
  | [], pre => .ok ⟨pre, []⟩
  | i :: is, pre =>
    match i.e.conds o with
    | .error err => .error err
    | .ok cs =>
      match altMeaning o is (i.marked || pre) with
      | .error err => .error err
      | .ok s => .ok ⟨s.prerelease, cs ++ s.conds⟩

def rangeMeaning {V : Type} (o : ConanOps V) (pre : Bool) : List Alt → Except TErr (List CondSet)
  | [] => .ok []
  | a :: as =>
    match altMeaning o a.items pre with
    | .error err => .error err
    | .ok s =>
      match rangeMeaning o pre as with
      | .error err => .error err
      | .ok ss => .ok (s :: ss)

/-- the errors this converter declares: the `ValueError` family and `ConanException`, the
library's own error for a range it cannot read -/
def declared (e : TErr) : Bool := e.declared || e == errConan

/-! ### plain dotted numeric versions: a local version interface -/

/-- `str(n)` -/
def natStr (n : Nat) : List Char := Nat.toDigits 10 n

/-- `int(s)` on ASCII digits -/
def natVal (s : List Char) : Nat := Nat.ofDigitChars 10 s 0

def isNum (s : List Char) : Bool := !s.isEmpty && s.all Char.isDigit

/-- `".".join(...)` -/
def joinDots : List (List Char) → List Char
  | [] => []
  | [x] => x
  | x :: xs => x ++ '.' :: joinDots xs

/-- the text of the plain version with the items `ns` -/
def renderNum (ns : List Nat) : List Char := joinDots (ns.map natStr)

/-- the items of a plain version text (`none` when it is not of the form `n(.n)*`) -/
def numItems (t : List Char) : Option (List Nat) :=
  let parts := splitOn '.' t
  if parts.all isNum then some (parts.map natVal) else none

/-- `first_non_zero` on a list of numbers: the index of the first non-zero one, else the last index -/
def firstNZ (ns : List Nat) : Nat :=
  let i := ns.findIdx (fun n => n != 0)
  if i = ns.length then ns.length - 1 else i

/-- the local interface: versions are their texts; meaningful on plain dotted numeric texts only
(anything else is answered with the error `NotNumeric`, which no real code raises) -/
def numOps : ConanOps (List Char) where
  make t := .ok t
  str t := t
  mainLen t := (splitOn '.' t).length
  firstNonZero t :=
    match numItems t with
    | some ns => firstNZ ns
    | none => 0
  upperBound t i :=
    match numItems t with
    | some ns =>
      if h : i < ns.length then .ok (renderNum (ns.take i ++ [ns[i] + 1]) ++ ['-'])
      else .error .IndexError
    | none => .error (.other "NotNumeric")

end Univers.Text.ConanRange
