-- Root of the `Univers` library: models, specs, theorems, driver.
import Univers.Basic.PadLex
import Univers.Py.Attrs
import Univers.Vers.Model
import Univers.Vers.Spec
import Univers.Vers.ContainsThm
import Univers.Vers.ContainsMain
import Univers.Vers.DenoteCongr
import Univers.Driver
import Univers.Props.C04
import Univers.Vers.SortThm
import Univers.Vers.ValidateThm
import Univers.Props.C07
import Univers.Vers.Cuts
import Univers.Vers.InvertThm
import Univers.Vers.InvertWF
import Univers.Props.C09
