-- Root of the `Univers` library: models, specs, theorems, driver.
import Univers.Vers.Model
import Univers.Vers.Spec
import Univers.Driver
import Univers.Props.C04
