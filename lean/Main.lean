/-
Line-protocol driver: one operation per input line, one answer per output line.
Imports only model and spec files (no Mathlib), so it can be compiled to a native executable.
-/
import Univers.Driver

def main : IO Unit := Univers.Driver.mainLoop
