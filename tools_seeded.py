#!/venv/bin/python
"""
Seeded-change bookkeeping (DESIGN §"seeded changes").  Not part of any registered check.

  tools_seeded.py verify <Cnn> <k>        in the scratch worktree /tmp/mut_<Cnn>: demo on the clean tree (expect 0),
                                          apply, demo (expect 1), test-suite (expect baseline), undo
  tools_seeded.py check  <Cnn> <k> [pids] apply in the worktree, run ./check <pid> (UNIVERS_REPO=<worktree>) for each
                                          pid (default: the property itself), undo; prints the VIOLATION lines
  tools_seeded.py keep   <Cnn> <k> <needs...>  copy into /verif/seeded/<Cnn>-<k>/ with meta.json
  tools_seeded.py recheck [name...]       re-run the recorded catching checks for kept changes against a fresh worktree
"""
import json
import os
import shutil
import subprocess
import sys
import time

VERIF = os.path.dirname(os.path.abspath(__file__))
PY = "/venv/bin/python"


def sh(cmd, cwd=None, env=None, timeout=3600):
    e = dict(os.environ)
    if env:
        e.update(env)
    p = subprocess.run(cmd, shell=True, cwd=cwd, env=e, stdout=subprocess.PIPE, stderr=subprocess.STDOUT,
                       text=True, timeout=timeout)
    return p.returncode, p.stdout


PREFIX = os.environ.get("SEEDED_PREFIX", "mut")     # scratch worktrees /tmp/<prefix>_<pid>, outputs /tmp/<prefix>_<pid>_out/<k>


def wt_of(pid):
    return "/tmp/%s_%s" % (PREFIX, pid)


def out_of(pid, k):
    return "/tmp/%s_%s_out/%s" % (PREFIX, pid, k)


def demo(pid, k, wt):
    return sh("%s %s/demo.py" % (PY, out_of(pid, k)), cwd=wt, env={"REPO_ROOT": wt, "PYTHONPATH": wt + "/src"}, timeout=900)


def verify(pid, k):
    wt, out = wt_of(pid), out_of(pid, k)
    sh("git checkout -- .", cwd=wt)
    res = {}
    rc, o = demo(pid, k, wt)
    res["demo_clean_rc"] = rc
    rc, o = sh("git apply %s/patch.diff" % out, cwd=wt)
    res["apply_rc"] = rc
    if rc != 0:
        res["apply_out"] = o[-500:]
    rc, o = demo(pid, k, wt)
    res["demo_patched_rc"] = rc
    res["demo_patched_tail"] = o[-1500:]
    t0 = time.time()
    rc, o = sh("%s -m pytest -q -p no:cacheprovider --timeout=900 -x --deselect tests/test_codestyle.py -n 4 2>&1 | tail -3" % PY,
               cwd=wt, env={"PYTHONPATH": wt + "/src"})
    if "unrecognized arguments: -n" in o or "no such option" in o:
        rc, o = sh("%s -m pytest -q -p no:cacheprovider --timeout=900 -x --deselect tests/test_codestyle.py 2>&1 | tail -3" % PY,
                   cwd=wt, env={"PYTHONPATH": wt + "/src"})
    res["suite_tail"] = o.strip()[-300:]
    res["suite_ok"] = (" failed" not in o and "error" not in o.lower() and " passed" in o)
    res["suite_secs"] = int(time.time() - t0)
    sh("git checkout -- .", cwd=wt)
    res["ok"] = (res["demo_clean_rc"] == 0 and res["apply_rc"] == 0 and res["demo_patched_rc"] == 1 and res["suite_ok"])
    json.dump(res, open(out + "/verify.json", "w"), indent=1)
    print(pid, k, json.dumps({a: b for a, b in res.items() if a != "demo_patched_tail"}))
    return res


def check(pid, k, pids, tier="quick", wt=None, patch=None):
    wt = wt or wt_of(pid)
    patch = patch or (out_of(pid, k) + "/patch.diff")
    sh("git checkout -- .", cwd=wt)
    rc, o = sh("git apply %s" % patch, cwd=wt)
    if rc != 0:
        # the tree moved on (a later `fix:` commit touched the neighbourhood): apply with context fuzz
        sh("git checkout -- .", cwd=wt)
        rc, o2 = sh("patch -p1 --fuzz=3 -s --no-backup-if-mismatch -r - < %s" % patch, cwd=wt)
        if rc != 0:
            sh("git checkout -- .", cwd=wt)
            raise ApplyFailed(o + o2)
    results = {}
    try:
        for p in pids:
            t0 = time.time()
            rc, o = sh("./check %s --tier %s" % (p, tier), cwd=VERIF, env={"UNIVERS_REPO": wt, "VERIF_SEED": os.environ.get("VERIF_SEED", "0"),
                                                                                 "VERIF_EVIDENCE_DIR": "/tmp/seeded_evidence"})
            viol = [l for l in o.splitlines() if l.startswith("VIOLATION")]
            detail = []
            for l in viol[:3]:
                path = l.split("replay=")[1].split()[0]
                try:
                    d = json.load(open(path))
                    detail.append({a: d.get(a) for a in ("stream", "line", "impl", "model", "spec", "key", "found_failing_input", "clause") if a in d})
                except Exception as e:
                    detail.append(str(e))
            results[p] = {"rc": rc, "violations": viol[:5], "n_violations": len(viol), "detail": detail,
                          "secs": int(time.time() - t0), "tail": o[-400:] if rc not in (0, 1) else ""}
            print(pid, k, p, "rc=%d" % rc, "viol=%d" % len(viol), "%ds" % (time.time() - t0), json.dumps(detail)[:600])
    finally:
        sh("git checkout -- .", cwd=wt)
        # leave lean/Univers/Gen as /repo says (the runs above regenerated it from the patched worktree)
        sh("%s -m harness.translate" % PY, cwd=VERIF)
    return results


class ApplyFailed(Exception):
    pass


def keep(pid, k, needs, results, name=None):
    out = out_of(pid, k)
    name = name or "%s-%s" % (pid, k)
    dst = os.path.join(VERIF, "seeded", name)
    os.makedirs(dst, exist_ok=True)
    for f in ("patch.diff", "demo.py", "note.txt"):
        shutil.copy(os.path.join(out, f), os.path.join(dst, f))
    ver = json.load(open(out + "/verify.json"))
    meta = {
        "breaks": pid,
        "needs": needs,
        "note": open(out + "/note.txt").read().strip(),
        "confirmed": {
            "how": "scratch worktree of /repo: demo.py exits 0 on the clean tree and 1 with patch.diff applied; "
                   "the pinned test-suite (tests/test_codestyle.py deselected: it fails on the unchanged tree) passes with the patch",
            "demo_clean_rc": ver["demo_clean_rc"], "demo_patched_rc": ver["demo_patched_rc"],
            "suite": ver["suite_tail"],
        },
        "checks_run": {p: {"rc": r["rc"], "n_violations": r["n_violations"], "first": (r["detail"] or [None])[0]}
                       for p, r in results.items()},
        "caught_by": sorted(p for p, r in results.items() if r["rc"] == 1),
    }
    json.dump(meta, open(os.path.join(dst, "meta.json"), "w"), indent=1, ensure_ascii=False)
    print("kept", dst, "caught_by", meta["caught_by"])


def main(argv):
    cmd = argv[0]
    if cmd == "verify":
        verify(argv[1], argv[2])
    elif cmd == "check":
        pid, k = argv[1], argv[2]
        pids = argv[3:] or [pid]
        r = check(pid, k, pids)
        json.dump(r, open(out_of(pid, k) + "/check.json", "w"), indent=1)
    elif cmd == "keep":
        pid, k = argv[1], argv[2]
        r = json.load(open(out_of(pid, k) + "/check.json"))
        keep(pid, k, " ".join(argv[3:]), r, name=os.environ.get("SEEDED_NAME"))
    elif cmd == "recheck":
        names = argv[1:] or sorted(os.listdir(os.path.join(VERIF, "seeded")))
        wt = os.environ.get("SEEDED_RECHECK_WT", "/tmp/seeded_recheck")
        sh("git -C /repo worktree remove --force %s" % wt)
        rc, o = sh("git -C /repo worktree add --detach %s HEAD" % wt)
        assert rc == 0, o
        try:
            for n in names:
                d = os.path.join(VERIF, "seeded", n)
                meta = json.load(open(d + "/meta.json"))
                pids = meta.get("caught_by") or [meta["breaks"]]
                try:
                    r = check(meta["breaks"], n, pids, wt=wt, patch=d + "/patch.diff")
                except ApplyFailed as e:
                    print(meta["breaks"], n, "APPLY-FAILED", str(e)[-300:].replace("\n", " "))
                    continue
                meta["recheck"] = {p: {"rc": x["rc"], "n_violations": x["n_violations"]} for p, x in r.items()}
                json.dump(meta, open(d + "/meta.json", "w"), indent=1, ensure_ascii=False)
        finally:
            sh("git -C /repo worktree remove --force %s" % wt)
    return 0


if __name__ == "__main__":
    sys.exit(main(sys.argv[1:]))
