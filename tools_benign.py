#!/venv/bin/python
"""Harmless changes (`benign/r<round>-<agent>-<k>/`: patch.diff, note.txt, demo.py) against the eighteen quick checks.

  tools_benign.py run <round> [<name> ...]   apply each patch in a scratch worktree of /repo (outside /repo and /verif), run
                                             the 18 quick checks of THIS directory against it, write benign/results-r<round>.json
  tools_benign.py report                     benign/RESULTS.md from the results files

Nothing here is registered in MANIFEST.json: it is the experiment behind DESIGN.md §20 (no alarm on code where the
properties hold), kept so that it can be repeated."""
import glob
import json
import os
import subprocess
import sys

V = os.path.dirname(os.path.abspath(__file__))
PIDS = ["C%02d" % i for i in range(1, 19)]


def sh(cmd, cwd=None, env=None):
    e = dict(os.environ)
    e.update(env or {})
    p = subprocess.run(cmd, shell=True, cwd=cwd, env=e, stdout=subprocess.PIPE, stderr=subprocess.STDOUT, text=True)
    return p.returncode, p.stdout


def run(rnd, names):
    names = names or sorted(os.path.basename(d) for d in glob.glob(os.path.join(V, "benign", "r%s-*" % rnd)))
    wt = os.environ.get("BENIGN_WT", "/tmp/benign_wt")
    sh("git -C /repo worktree remove --force %s" % wt)
    rc, o = sh("git -C /repo worktree add --detach %s HEAD" % wt)
    assert rc == 0, o
    out = os.path.join(V, "benign", "results-r%s.json" % rnd)
    res = json.load(open(out)) if os.path.exists(out) else {}
    try:
        for n in names:
            sh("git checkout -- .", cwd=wt)
            rc, o = sh("git apply %s" % os.path.join(V, "benign", n, "patch.diff"), cwd=wt)
            if rc != 0:
                res[n] = {"apply": o[-300:]}
                continue
            row = {}
            for p in PIDS:
                rc, o = sh("./check %s --tier quick" % p, cwd=V, env={"UNIVERS_REPO": wt, "VERIF_SEED": "0", "VERIF_EVIDENCE_DIR": "/tmp/benign_evidence"})
                row[p] = {"rc": rc, "violations": [l for l in o.splitlines() if l.startswith("VIOLATION")][:3]}
                print(n, p, rc, flush=True)
            res[n] = row
            json.dump(res, open(out, "w"), indent=1)
    finally:
        sh("git -C /repo worktree remove --force %s" % wt)
        sh("%s -m harness.translate" % sys.executable, cwd=V)


def report():
    lines = ["# Harmless changes against the eighteen quick checks", "",
             "Each row is one change written by a fresh agent that was asked to PRESERVE all eighteen properties (the prompt is",
             "`notes/BENIGN_AGENT_PROMPT.txt`; themes: refactoring of the comparison routines, of `version_constraint.py` and",
             "`version_range.py`, code movement, idiom modernisation, new features, de-duplication).  Each was confirmed here: the",
             "pinned suite passes with it, its own differential demonstration exits 0 before and after.  A cell is the exit status of",
             "`./check Cnn --tier quick` with `UNIVERS_REPO` pointing at a scratch worktree that has the patch applied (0 = no alarm).", ""]
    for f in sorted(glob.glob(os.path.join(V, "benign", "results-r*.json"))):
        res = json.load(open(f))
        rnd = os.path.basename(f)[len("results-r"):-5]
        lines += ["## Round %s" % rnd, "", "| change | what | " + " | ".join(p[1:] for p in PIDS) + " |", "|---|---|" + "---|" * len(PIDS)]
        alarms = 0
        for n in sorted(res):
            note = ""
            try:
                note = open(os.path.join(V, "benign", n, "note.txt")).read().strip().split("\n")[0][:110].replace("|", "/")
            except OSError:
                pass
            row = res[n]
            if "apply" in row:
                lines.append("| %s | %s | patch does not apply |" % (n, note))
                continue
            cells = []
            for p in PIDS:
                rc = row.get(p, {}).get("rc")
                cells.append("·" if rc == 0 else ("**%s**" % rc))
                alarms += rc not in (0, None)
            lines.append("| %s | %s | %s |" % (n, note, " | ".join(cells)))
        lines += ["", "%d changes × 18 checks, %d alarms." % (len(res), alarms), ""]
    open(os.path.join(V, "benign", "RESULTS.md"), "w").write("\n".join(lines) + "\n")
    print("\n".join(lines[-4:]))


if __name__ == "__main__":
    if sys.argv[1] == "run":
        run(sys.argv[2], sys.argv[3:])
    else:
        report()
